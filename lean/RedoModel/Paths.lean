/-
Model of the lexical path layer of redo-rs:

* `helpers::normpath`        (src/helpers.rs:711-802; Go's `path.Clean`)
* `helpers::abs_path`        (src/helpers.rs:572-586; `PathBuf::push`)
* the lexical tail of `state::relpath` (src/state.rs:1284-1319)
* `state::realdirpath`       (src/state.rs:1373-1416) with the OS `canonicalize` as a parameter

Paths are lists of characters (`RedoPath` guarantees valid UTF-8 without NUL and
newline; only `/` and `.` are interpreted).  `normpath` is modelled at component
level; that this is extensionally the byte-level loop of the Rust code is what the
correspondence check establishes (exhaustively over small alphabets) on every run.

No imports: this file is part of the natively compiled driver.
-/
namespace RedoModel.Paths

/-- Split at every `/`.  Always returns a non-empty list. -/
def splitSlash : List Char → List (List Char)
  | [] => [[]]
  | c :: cs =>
    if c = '/' then [] :: splitSlash cs
    else match splitSlash cs with
      | [] => [[c]]
      | h :: t => (c :: h) :: t

def dot : List Char := ['.']
def dotdot : List Char := ['.', '.']

/-- Non-empty components of a path. -/
def comps (p : List Char) : List (List Char) :=
  (splitSlash p).filter (fun c => !c.isEmpty)

def rooted (p : List Char) : Bool :=
  match p with
  | c :: _ => c == '/'
  | [] => false

/-- One step of the clean-up loop, on the reversed output stack. -/
def push (root : Bool) (st : List (List Char)) (c : List Char) : List (List Char) :=
  if c = dot then st
  else if c = dotdot then
    match st with
    | [] => if root then [] else [dotdot]
    | top :: rest => if top = dotdot then dotdot :: top :: rest else rest
  else c :: st

def joinSlash : List (List Char) → List Char
  | [] => []
  | [c] => c
  | c :: d :: cs => c ++ '/' :: joinSlash (d :: cs)

/-- Normalised components of a component list. -/
def cleanComps (root : Bool) (cs : List (List Char)) : List (List Char) :=
  (cs.foldl (push root) []).reverse

def render (root : Bool) (cs : List (List Char)) : List Char :=
  if root then '/' :: joinSlash cs
  else if cs.isEmpty then dot else joinSlash cs

/-- `helpers::normpath`. -/
def normpath (p : List Char) : List Char :=
  render (rooted p) (cleanComps (rooted p) (comps p))

/-- `PathBuf::push` as used by `abs_path` and `Path::join`. -/
def pushPath (a b : List Char) : List Char :=
  if rooted b then b
  else if a.isEmpty || a.getLast? == some '/' then a ++ b
  else a ++ '/' :: b

/-- `helpers::abs_path`. -/
def absPath (cwd p : List Char) : List Char :=
  if rooted p then p else pushPath cwd p

/-- Strip the common prefix; climb out of what is left of the base. -/
def relComps : List (List Char) → List (List Char) → List (List Char)
  | t :: ts, b :: bs =>
    if t = b then relComps ts bs
    else List.replicate (bs.length + 1) dotdot ++ (t :: ts)
  | ts, bs => List.replicate bs.length dotdot ++ ts

/-- The lexical tail of `state::relpath` for absolute `t` and `base` (after `realdirpath`). -/
def relpathLex (t base : List Char) : List Char :=
  joinSlash (relComps (comps (normpath t)) (comps (normpath base)))

/-- Index of the last `/`, splitting into (directory part including the slash, file part). -/
def splitLast (p : List Char) : Option (List Char × List Char) :=
  match (splitSlash p).reverse with
  | [] => none
  | [_] => none
  | f :: _ => some (p.take (p.length - f.length), f)

/-- `dname == Path::new(".")` — `Path` equality is component-wise, so `./`, `.//`, `././` all qualify. -/
def isDotPath (d : List Char) : Bool :=
  !rooted d && !(comps d).isEmpty && (comps d).all (fun c => c == dot)

/-- The proper leading parts of an absolute path as `Path::components` yields them (`.` and empty components
dropped, `..` kept), longest first, each with the components that follow it; the last entry is the root alone. -/
def properPrefixes (cs : List (List Char)) : List (List (List Char) × List (List Char)) :=
  (List.range cs.length).reverse.map (fun k => (cs.take k, cs.drop k))

/-- The directory part does not exist (repaired in /repo: like Python's `os.path.realpath`, the longest leading part
that exists is resolved and the rest is kept as spelled, so that a directory yet to be created below a symlinked one
gets one name through the link and through the real path).  `a` is absolute. -/
def resolveLongest (canon : List Char → Option (List Char)) (a : List Char) : List Char :=
  let cs := (comps a).filter (fun c => c != dot)
  match (properPrefixes cs).findSome? (fun pr => (canon ('/' :: joinSlash pr.1)).map (fun P => (P, pr.2))) with
  | some (P, rest) => normpath (rest.foldl (fun acc c => pushPath acc c) P)
  | none => normpath a

/-- `state::realdirpath`, with `canon` standing for `Path::canonicalize` on the
directory part (`none` = not found, fall back to lexical cleaning) and `cwd` for
`env::current_dir`. -/
def realdirpath (canon : List Char → Option (List Char)) (cwd t : List Char) : List Char :=
  match splitLast t with
  | none => t
  | some (dname, fname) =>
    if isDotPath dname then t
    else
      let d := match canon dname with
        | some d => d
        | none => resolveLongest canon (if rooted dname then dname else pushPath cwd dname)
      pushPath d fname

/-- `state::relpath t base` with the process cwd explicit. -/
def relpath (canon : List Char → Option (List Char)) (cwd t base : List Char) : List Char :=
  let t := if rooted t then t else pushPath cwd t
  relpathLex (realdirpath canon cwd t) (realdirpath canon cwd base)

end RedoModel.Paths
