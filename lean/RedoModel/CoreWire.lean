import RedoModel.Core.Hist
/-
Text encoding of plain histories for the `core-run` verb: the plain-target core (`RedoModel/Core`),
for which C01 is proven over all histories, is run on the same histories as the real binaries.

request:  core-run <nfiles> <graph> <ops>
  graph:  t:tag:d1_d2;t:tag:-     (`-` for no target at all)
  ops (`;`-separated):  w.F.V | r.F | b.T1_T2
answer: one snapshot per op, ` | `-separated:  [rv=<0|1> ]fs[F=tokens …] db[F:<g|->:changed:failed:stampclass …]
Contents are flattened to the token lists the generated scripts really write (see tools/depsgen.py).
-/
namespace RedoModel.CoreWire
open P

def natList (s : String) : Option (List Nat) :=
  if s = "-" || s = "" then some [] else (s.splitOn "_").mapM (·.toNat?)

/-- The tokens a file with this content holds: a source of version `v` holds `2v+3`; an output is
`2*tag+2` followed by `0 <input> 1` per input (`0 1` for a missing input). -/
def flat : Content → List Nat
  | .src v => [2 * v + 3]
  | .out tag ins => (2 * tag + 2) :: flatIns ins
where
  flatIns : List (Option Content) → List Nat
    | [] => []
    | none :: r => 0 :: 1 :: flatIns r
    | some c :: r => (0 :: flat c) ++ (1 :: flatIns r)

def parseGraph (s : String) : Option Graph :=
  if s = "-" then some (fun _ => none) else do
    let es ← (s.splitOn ";").mapM fun e =>
      match e.splitOn ":" with
      | [t, tag, ds] => do pure ((← t.toNat?), ({ tag := (← tag.toNat?), deps := (← natList ds) } : Script))
      | _ => none
    pure fun t => (es.find? (fun e => e.1 == t)).map (·.2)

def parseOp (s : String) : Option Op :=
  match s.splitOn "." with
  | ["w", f, v] => do pure (.write (← f.toNat?) (← v.toNat?))
  | ["r", f] => do pure (.remove (← f.toNat?))
  | ["b", ts] => do pure (.build (← natList ts))
  | _ => none

def showNats (l : List Nat) : String := "_".intercalate (l.map toString)

/-- Run ids are printed relative to the first run (the model's first run has id 2). -/
def showRun (o : Option Nat) : String := match o with
  | none => "-"
  | some n => toString (n - 1)

def stampClass (w : World) (f : Nat) (r : Rec) : String :=
  match r.stamp with
  | none => "none"
  | some 0 => "missing"
  | some s => if s = curStamp w f then "cur" else "other"

def snapshot (g : Graph) (w : World) (n : Nat) : String :=
  let files := (List.range n).filterMap fun f =>
    match w.fs f with
    | some x => some (toString f ++ "=" ++ showNats (flat x.content))
    | none => none
  -- records of files redo has seen (a record exists once any field was set)
  let recs := (List.range n).filterMap fun f =>
    let r := w.db f
    if r.changed.isNone && r.checked.isNone && r.failed.isNone && r.stamp.isNone && !r.gen then none else
    some (toString f ++ ":" ++ (if r.gen then "g" else "-") ++ ":" ++ showRun r.changed
      ++ ":" ++ showRun r.failed ++ ":" ++ stampClass w f r)
  let _ := g
  "fs[" ++ " ".intercalate files ++ "] db[" ++ " ".intercalate recs ++ "]"

def runHistory (g : Graph) (n : Nat) (ops : List Op) : List String :=
  let k := n + 1
  let fuel := n + 2
  let rec go : List Op → HState → List String → List String
    | [], _, acc => acc.reverse
    | op :: ops, s, acc =>
      let (s', res) := step g k fuel s op
      let line := match res with
        | some ok => "rv=" ++ (if ok then "0" else "1") ++ " " ++ snapshot g s'.w n
        | none => snapshot g s'.w n
      go ops s' (line :: acc)
  go ops init []

def respond (n graph ops : String) : String :=
  match n.toNat?, parseGraph graph, (ops.splitOn ";").mapM parseOp with
  | some n, some g, some ops => " | ".intercalate (runHistory g n ops)
  | _, _, _ => "bad-op"

end RedoModel.CoreWire
