"""Concurrent scenarios: generated projects whose scripts record work sections, real runs at -jN (own or
inherited jobserver, one or several top-level invocations) with REDO_VERIF_TRACE, and trace parsing."""
import os, random, re, signal, subprocess, time
from proj import Project, clean_env, kill_orphans
from common import *


def gen_graph(rng, n, shape=None):
    """Return dict name -> dict(deps=[...], dur=ms, fail=bool, always=bool, stamp=bool).  Acyclic by rank."""
    shape = shape or rng.choice(["random", "diamond", "chain", "fan", "layers"])
    names = ["n%02d" % i for i in range(n)]
    g = {}
    for i, nm in enumerate(names):
        lower = names[:i]
        if shape == "chain":
            deps = lower[-1:]
        elif shape == "fan":
            deps = [] if i < n - 1 else lower
        elif shape == "diamond":
            deps = [] if i == 0 else ([names[0]] if i < n - 1 else lower[1:])
        elif shape == "layers":
            w = max(2, n // 3)
            layer = i // w
            deps = [x for j, x in enumerate(lower) if j // w == layer - 1 and rng.random() < 0.7]
        else:
            deps = [d for d in lower if rng.random() < min(0.5, 2.5 / max(1, i))]
        g[nm] = dict(deps=deps, dur=rng.choice([0, 5, 20, 60, 120]), fail=False, always=False, stamp=False)
    return g


def write_project(pr, g, top="all", extra=None):
    for nm, s in g.items():
        # the end record is written by an EXIT trap: a script that stops early (sh -e on a failing redo-ifchange, exit 3)
        # has ended too, and must not look like an execution that is still under way
        L = ['trap \'echo "E $$ %s $(date +%%s%%N)" >>"$VERIF_WORK"\' EXIT' % nm,
             'echo "B $$ %s $(date +%%s%%N)" >>"$VERIF_WORK"' % nm]
        if s.get("always"):
            L.append("redo-always")
        if s["deps"]:
            L.append("redo-ifchange " + " ".join(s["deps"]))
        L.append('echo "S $$ %s $(date +%%s%%N)" >>"$VERIF_WORK"' % nm)
        if s["dur"]:
            L.append("sleep %.3f" % (s["dur"] / 1000.0))
        L.append('echo "stderr of %s" >&2' % nm)
        if s.get("fail"):
            L.append("exit 3")
        body = "cat " + " ".join(s["deps"]) + " 2>/dev/null; echo %s" % nm if s["deps"] else "echo %s" % nm
        if s.get("stamp") and s.get("stamp_early"):
            # the checksum is recorded well before the script ends (redo-stamp commits its marks at once)
            L.append("{ %s; } >\"$3\"; redo-stamp <\"$3\"; sleep %.3f" % (body, max(s["dur"], 80) / 1000.0))
        elif s.get("stamp"):
            L.append("{ %s; } >\"$3\"; redo-stamp <\"$3\"" % body)
        else:
            L.append(body)
        pr.write(nm + ".do", "\n".join(L) + "\n")
    roots = [n for n in g if not any(n in s["deps"] for s in g.values())]
    pr.write(top + ".do", "redo-ifchange " + " ".join(sorted(roots)) + "\n")
    if extra:
        for k, v in extra.items():
            pr.write(k, v)


class Run:
    def __init__(self, rc, out, err, trace, work, wall, timed_out=False):
        self.rc, self.out, self.err, self.trace, self.work, self.wall, self.timed_out = rc, out, err, trace, work, wall, timed_out


def parse_trace(path):
    ev = []
    if os.path.exists(path):
        for l in open(path, errors="replace"):
            f = l.rstrip("\n").split(" ")
            if len(f) >= 3 and f[0].isdigit():
                ev.append((int(f[0]), int(f[1]), f[2], f[3:]))
    return ev


def parse_work(path):
    ev = []
    if os.path.exists(path):
        for l in open(path):
            f = l.split()
            if len(f) == 4:
                ev.append((f[0], int(f[1]), f[2], int(f[3])))
    return ev


def run_cmds(pr, cmds, env=None, timeout=60, stagger=0.0, pass_fds=()):
    """Start the given argv lists (concurrently when several), wait; returns list of Run."""
    trace = pr.path(".verif-trace")
    work = pr.path(".verif-work")
    for p in (trace, work):
        if os.path.exists(p):
            os.unlink(p)
    e = clean_env(dict(REDO_VERIF_TRACE=trace, VERIF_WORK=work))
    if env:
        e.update(env)
    t0 = time.time()
    procs = []
    for i, argv in enumerate(cmds):
        procs.append(subprocess.Popen(argv, cwd=pr.root, env=e, stdout=subprocess.PIPE, stderr=subprocess.PIPE,
                                      stdin=subprocess.DEVNULL, pass_fds=pass_fds, start_new_session=True))
        if stagger:
            time.sleep(stagger)
    res = []
    for p in procs:
        left = max(0.1, timeout - (time.time() - t0))
        try:
            out, err = p.communicate(timeout=left)
            res.append(Run(p.returncode, out.decode("utf-8", "replace"), err.decode("utf-8", "replace"), None, None, time.time() - t0))
        except subprocess.TimeoutExpired:
            snap = ""
            try:
                # what every process of THIS scenario (its sessions) is doing: state, kernel wait channel, kernel stack,
                # and which locks exist — enough to tell a blocked lock wait from a lost token from a stalled machine
                sids = " ".join(str(q.pid) for q in procs)
                snap = subprocess.run(["sh", "-c", "echo LOCKS; cat /proc/locks | head -30; uptime; "
                                       "for s in %s; do for p in $(ps -s $s -o pid= 2>/dev/null); do echo \"== $p $(cat /proc/$p/comm 2>/dev/null)\"; head -5 /proc/$p/stack 2>/dev/null; done; done | head -100; "
                                       "for s in %s; do ps -s $s -o pid,ppid,stat,wchan:24,etimes,args 2>/dev/null | tail -n +2; done | cut -c1-160" % (sids, sids)],
                                      stdout=subprocess.PIPE, text=True, timeout=10).stdout
            except Exception:
                pass
            try:
                os.killpg(p.pid, signal.SIGKILL)
            except ProcessLookupError:
                pass
            out, err = p.communicate()
            res.append(Run(-999, out.decode("utf-8", "replace"), err.decode("utf-8", "replace") + "\n[snapshot]\n" + snap, None, None, time.time() - t0, True))
    # make sure nothing of the scenario survives
    for p in procs:
        kill_orphans(p.pid)
    tr, wk = parse_trace(trace), parse_work(work)
    for r in res:
        r.trace, r.work = tr, wk
    return res


def max_overlap(work):
    """Maximum number of simultaneously open S..E sections, and per-target overlap of B..E sections."""
    pts = []
    open_s = set()
    for k, pid, name, ts in sorted(work, key=lambda e: e[3]):
        if k == "S":
            pts.append((ts, 1))
            open_s.add(pid)
        elif k == "E" and pid in open_s:      # a script that ended before it started working has no section to close
            pts.append((ts, -1))
            open_s.discard(pid)
    pts.sort()
    cur = mx = 0
    for _, d in pts:
        cur += d
        mx = max(mx, cur)
    return mx


def target_overlaps(work):
    """Targets for which two executions (B..E) overlap in time, and execution counts."""
    by = {}
    for k, pid, name, ts in work:
        by.setdefault(name, {}).setdefault(pid, {})[k] = ts
    over, counts = [], {}
    for name, execs in by.items():
        iv = sorted((v.get("B", 0), v.get("E", 1 << 62)) for v in execs.values())
        counts[name] = len(iv)
        for a, b in zip(iv, iv[1:]):
            if b[0] < a[1]:
                over.append(name)
                break
    return over, counts


# ----------------------------------------------------------------- token trace -> wire events

def token_groups(trace):
    """Split js.* events by jobserver.  Returns dict root -> [wire events].
    A child may log its first event before its parent has logged the `js.start` that created it (the hook is
    after fork()); since a process cannot run before it is forked, such a start event is moved in front of the
    child's first event."""
    starts = {}                      # job pid -> index of its js.start event
    for i, (pid, ts, name, a) in enumerate(trace):
        if name == "js.start":
            starts[int(a[0])] = i
    order, emitted = [], set()
    for i, e in enumerate(trace):
        pid, ts, name, a = e
        if not name.startswith("js."):
            continue
        if i in emitted:
            continue
        if name == "js.setup" and a[1] == "inherited":
            j = starts.get(int(a[2]))
            if j is not None and j > i and j not in emitted:
                order.append(trace[j])
                emitted.add(j)
        order.append(e)
        emitted.add(i)
    owner, jobowner, groups = {}, {}, {}
    for pid, ts, name, a in order:
        k = name[3:]
        if k == "setup":
            mx, kind, ppid = int(a[0]), a[1], int(a[2])
            if kind == "own":
                owner[pid] = pid
                groups.setdefault(pid, []).append("so,%d,%d" % (pid, max(1, mx)))
            else:
                g = jobowner.get(ppid, "ext")
                owner[pid] = g
                groups.setdefault(g, []).append("si,%d,%d" % (pid, ppid))
            continue
        g = owner.get(pid)
        if g is None:
            continue
        ev = groups.setdefault(g, [])
        if k == "create":
            ev.append("cr,%d,%s,%s,%s" % (pid, a[0], a[1], a[2]))
        elif k == "destroy":
            ev.append("de,%d,%s,%s,%s" % (pid, a[0], a[1], a[2]))
        elif k == "release":
            ev.append("rl,%d,%s,%s,%s,%s" % (pid, a[0], a[1], a[2], a[3]))
        elif k == "read":
            ev.append("rd,%d,%s,%s" % (pid, a[0], a[1]))
        elif k == "eat":
            ev.append("ea,%d,%s,%s" % (pid, a[0], a[1]))
        elif k == "cheat":
            ev.append("ct,%d,%s,%s,%s" % (pid, a[0], a[1], a[2]))
        elif k == "start":
            jobowner[int(a[0])] = g
            ev.append("st,%d,%s,%s,%s" % (pid, a[0], a[1], a[2]))
        elif k == "childexit":
            ev.append("cx,%d,%s,%s,%s" % (pid, a[0], a[1], a[2]))
        elif k == "reaped":
            ev.append("rp,%d,%s" % (pid, a[0]))
        elif k == "forcereturn":
            ev.append("fr,%d,%s" % (pid, a[0]))
        elif k == "cheatwrite":
            ev.append("cw,%d,%s" % (pid, a[0]))
        elif k == "selftest":
            ev.append("te,%d,%s,%s,%s" % (pid, a[0], a[1], a[2]))
        elif k == "returned":
            ev.append("rt,%d,%s,%s" % (pid, a[0], a[1]))
    return groups


def token_procs(trace):
    """The js.* primitives of each redo process, in the wire format of `tokloop-replay` (no pid field).
    Returns dict pid -> ("top"|"sub", [events])."""
    procs = {}
    for pid, ts, name, a in trace:
        if not name.startswith("js."):
            continue
        k = name[3:]
        if k == "setup":
            # "exttop": inherited token pipe but own cheat pipe — the top of a redo tree under a foreign (make) jobserver
            procs[pid] = ("top" if a[1] == "own" else ("exttop" if len(a) > 3 and a[3] == "1" else "sub"), [])
            continue
        if pid not in procs:
            continue
        ev = procs[pid][1]
        if k == "create":
            ev.append("cr,%s,%s,%s" % (a[0], a[1], a[2]))
        elif k == "destroy":
            ev.append("de,%s,%s,%s" % (a[0], a[1], a[2]))
        elif k == "release":
            ev.append("rl,%s,%s,%s,%s" % (a[0], a[1], a[2], a[3]))
        elif k == "read":
            ev.append("rd,%s,%s" % (a[0], a[1]))
        elif k == "eat":
            ev.append("ea,%s,%s" % (a[0], a[1]))
        elif k == "cheat":
            ev.append("ct,%s,%s,%s" % (a[0], a[1], a[2]))
        elif k == "start":
            ev.append("st,%s,%s" % (a[1], a[2]))
        elif k == "childexit":
            ev.append("cx,%s,%s" % (a[1], a[2]))
        elif k == "reaped":
            ev.append("rp")
        elif k == "forcereturn":
            ev.append("fr,%s" % a[0])
        elif k == "cheatwrite":
            ev.append("cw,%s" % a[0])
        elif k == "selftest":
            ev.append("te")
        elif k == "returned":
            ev.append("rt,%s,%s" % (a[0], a[1]))
    return procs


TOKLOOP_STATS = dict(processes=0, steps=0, exits=0)


def replay_tokens(trace, ext_pipe=0):
    """Replay every jobserver group through the Lean acceptor `Tokens`, and every single process's primitives through
    `TokLoop` (tokloop-replay: the per-process token counter model of Props/C09, compound step by compound step);
    returns list of (group or process, answer, nevents)."""
    out = []
    groups = token_groups(trace)
    reqs, keys = [], []
    for g, ev in groups.items():
        reqs.append("tokens-replay %d %s" % (ext_pipe if g == "ext" else 0, ";".join(ev) if ev else "-"))
        keys.append((g, len(ev)))
    for pid, (kind, ev) in token_procs(trace).items():
        reqs.append("tokloop-replay %s %s" % (kind, ";".join(ev) if ev else "-"))
        keys.append(("process %d, per-process counter model TokLoop" % pid, 0))
        TOKLOOP_STATS["processes"] += 1
    if reqs:
        ans = run_lines(MODEL, reqs)
        out = [(k[0], a, k[1]) for k, a in zip(keys, ans)]
        for k, a in zip(keys, ans):
            m = re.match(r"ok steps=(\d+) .* exited=(true|false)", a)
            if m and str(k[0]).startswith("process"):
                TOKLOOP_STATS["steps"] += int(m.group(1))
                TOKLOOP_STATS["exits"] += m.group(2) == "true"
    return out


class ExtJobserver:
    """The harness acting as a GNU-make style parent jobserver with k tokens."""

    def __init__(self, k):
        self.r, self.w = os.pipe()
        os.set_inheritable(self.r, True)
        os.set_inheritable(self.w, True)
        os.write(self.w, b"+" * k)
        self.k = k

    def env(self):
        return {"MAKEFLAGS": " -j --jobserver-auth=%d,%d --jobserver-fds=%d,%d" % (self.r, self.w, self.r, self.w)}

    def fds(self):
        return (self.r, self.w)

    def count(self):
        os.set_blocking(self.r, False)
        n = 0
        try:
            while True:
                b = os.read(self.r, 4096)
                if not b:
                    break
                n += len(b)
        except BlockingIOError:
            pass
        return n

    def close(self):
        os.close(self.r)
        os.close(self.w)


# ----------------------------------------------------------------- lock/job trace -> wire events

LOG_LOCK_MAGIC = 0x10000000


def lock_events(trace):
    ev = []
    mode = {}
    for pid, ts, name, a in trace:
        if name == "lock.try":
            fid = int(a[0])
            if 0 < fid < LOG_LOCK_MAGIC:
                ev.append(("lo,%d,%d" if a[1] == "1" else "lf,%d,%d") % (pid, fid))
        elif name == "lock.wait.end":
            fid = int(a[0])
            if 0 < fid < LOG_LOCK_MAGIC:
                ev.append("lo,%d,%d" % (pid, fid))
        elif name == "lock.unlock":
            fid = int(a[0])
            # a process in REDO_UNLOCKED mode only pretends to own the lock (force_owned): its drop is not a release
            if 0 < fid < LOG_LOCK_MAGIC and not mode.get((pid, fid)):
                ev.append("ul,%d,%d" % (pid, fid))
        elif name == "job.begin":
            mode[(pid, int(a[0]))] = a[1] == "unlocked"
        elif name == "job.script":
            fid = int(a[0])
            ev.append("sc,%d,%d,%d" % (pid, fid, 1 if mode.get((pid, fid)) else 0))
        elif name == "job.record.end":
            ev.append("re,%d,%s" % (pid, a[0]))
        elif name == "js.returned":
            ev.append("ex,%d" % pid)
    return ev


def replay_locks(trace):
    ev = lock_events(trace)
    ans = run_lines(MODEL, ["locks-replay " + (";".join(ev) if ev else "-")])[0]
    return ans, ev


# ----------------------------------------------------------------------------- wait-for replay (Waits acceptor)

OOB_KEY = 1000000


def wait_events(trace, deps_by_name=None):
    """Events for the Waits acceptor + the reach table.  `deps_by_name`: target name -> declared direct dependencies
    (names); None = the declared graph is unknown, G2 is then not checked (every process may ask for anything)."""
    fid_of, name_of = {}, {}
    for pid, ts, name, a in trace:
        if name == "job.begin" and len(a) >= 3:
            fid_of[a[2]] = int(a[0])
            name_of[int(a[0])] = a[2]
        elif name == "run.locked" and len(a) >= 2:
            fid_of[a[1]] = int(a[0])
            name_of[int(a[0])] = a[1]
    started, child_of, mode, open_exec, alive_under = set(), {}, {}, set(), {}
    ev = []
    fids = set()

    def kill_children(key):
        # a shell (or redo-unlocked) has waited for its children before its parent reaps it
        for q in list(alive_under.get(key, ())):
            if q in started:
                ev.append("ex,%d" % q)
                started.discard(q)
        alive_under.pop(key, None)

    for pid, ts, name, a in trace:
        if name == "job.child":
            child_of[pid] = int(a[0]) + (OOB_KEY if a[1] == "oob" else 0)
        elif name == "run.begin":
            ppid = int(a[-1]) if a and a[-1].isdigit() else -1
            u = child_of.get(ppid)
            if pid in started:
                continue
            started.add(pid)
            ev.append("st,%d,%s" % (pid, "-" if u is None else str(u)))
            if u is not None:
                alive_under.setdefault(u, set()).add(pid)
        elif pid not in started:
            continue                      # redo-log's lock probes, start-up self tests
        elif name == "lock.try":
            fid = int(a[0])
            if 0 < fid < LOG_LOCK_MAGIC and a[1] == "1":
                ev.append("lo,%d,%d" % (pid, fid)); fids.add(fid)
        elif name == "lock.wait.begin":
            fid = int(a[0])
            if 0 < fid < LOG_LOCK_MAGIC:
                ev.append("wb,%d,%d" % (pid, fid)); fids.add(fid)
        elif name == "lock.wait.end":
            fid = int(a[0])
            if 0 < fid < LOG_LOCK_MAGIC:
                ev.append("we,%d,%d" % (pid, fid))
        elif name == "lock.unlock":
            fid = int(a[0])
            if 0 < fid < LOG_LOCK_MAGIC and not mode.get((pid, fid)):
                ev.append("ul,%d,%d" % (pid, fid))
        elif name == "job.begin":
            mode[(pid, int(a[0]))] = a[1] == "unlocked"
        elif name == "job.script":
            k = int(a[0])
            ev.append("sc,%d,%d" % (pid, k)); open_exec.add((pid, k)); fids.add(k)
        elif name == "job.oob":
            k = int(a[0]) + OOB_KEY
            ev.append("sc,%d,%d" % (pid, k)); open_exec.add((pid, k)); fids.add(int(a[0]))
        elif name in ("job.record.end", "job.oob.end"):
            k = int(a[0]) + (OOB_KEY if name == "job.oob.end" else 0)
            if (pid, k) in open_exec:
                kill_children(k)
                ev.append("se,%d,%d" % (pid, k)); open_exec.discard((pid, k))
        elif name == "run.end":
            if pid in started:
                ev.append("ex,%d" % pid)
                started.discard(pid)
                for s_ in alive_under.values():
                    s_.discard(pid)
    # reach: transitive declared dependencies, by fid; the out-of-band key of f reaches what f reaches
    reach = {}
    if deps_by_name is not None:
        def closure(n, seen):
            for d in deps_by_name.get(n, ()):
                if d not in seen:
                    seen.add(d)
                    closure(d, seen)
            return seen
        for n, f in fid_of.items():
            r = sorted(fid_of[x] for x in closure(n, set()) if x in fid_of)
            reach[f] = r
            reach[f + OOB_KEY] = r
    else:
        allf = sorted(fids)
        for f in allf:
            reach[f] = allf
            reach[f + OOB_KEY] = allf
    rs = ";".join("%d:%s" % (u, "_".join(map(str, r)) or "-") for u, r in sorted(reach.items())) or "-"
    return rs, ev


def replay_waits(trace, deps_by_name=None):
    rs, ev = wait_events(trace, deps_by_name)
    ans = run_lines(MODEL, ["waits-replay %s %s" % (rs, ";".join(ev) if ev else "-")])[0]
    return ans, ev, rs


def row_events(trace):
    """pid -> the transaction, load and save events of that process (for the RowCache acceptor)."""
    per = {}
    for pid, ts, name, a in trace:
        if name in ("txn.begin", "init.txn"):
            per.setdefault(pid, []).append("b,%d" % pid)
        elif name in ("txn.commit", "txn.rollback", "init.commit"):
            per.setdefault(pid, []).append("c,%d" % pid)
        elif name == "row.load" and len(a) >= 2:
            per.setdefault(pid, []).append("l,%d,%s,%s" % (pid, a[0], a[1]))
        elif name == "row.save" and len(a) >= 2:
            per.setdefault(pid, []).append("s,%d,%s,%s" % (pid, a[0], a[1]))
    return per


def replay_rows(trace):
    """Replay every process's load/save events through the Lean acceptor RowCache.step: a copy of a Files row is saved
    only inside the transaction in which it was loaded.  Returns (number of saves checked, [(pid, answer, events)])."""
    per = row_events(trace)
    per = {p: ev for p, ev in per.items() if any(e.startswith("s,") for e in ev)}
    if not per:
        return 0, []
    ans = run_lines(MODEL, ["rowcache-replay " + ";".join(ev) for ev in per.values()])
    bad = []
    saves = 0
    for (pid, ev), a in zip(per.items(), ans):
        if a.startswith("ok"):
            saves += int(a.split("=")[1])
        else:
            bad.append((pid, a, ev))
    return saves, bad


# ----------------------------------------------------------------------------- run-loop replay (RunLoop acceptor)

def runloop_events(trace):
    """pid -> (keep_going flag or None, [wire events]) for every process that entered builder::run: the control flow of
    the two loops of builder::run as that process logged it (hooks run.*, lock.*, job.*), for the Lean acceptor
    RunLoop.step.  A result known without a child (`im`) takes its status from the run.job_result the process logs
    when it polls that job; an internal error (`run.drained err`) is placed before the job ends that followed it."""
    per = {}
    result_of = {}                       # (pid, fid) -> status string from run.job_result
    for pid, ts, name, a in trace:
        if name == "run.job_result" and len(a) >= 2:
            result_of[(pid, int(a[0]))] = a[1]
    st = {}
    for pid, ts, name, a in trace:
        if name == "run.begin":
            st[pid] = dict(ev=[], kg=None, cur=None, forked=set(), lastrv={}, waited=None, fe=None, done=False, aborted=False)
            per[pid] = st[pid]
            continue
        s = st.get(pid)
        if s is None or s["done"]:
            continue
        ev = s["ev"]
        if name == "run.token":
            ev.append("tk")
        elif name == "run.check":
            ev.append("ck,%s" % a[1])
            if len(a) >= 3:
                s["kg"] = a[2] == "1"
        elif name == "run.target":
            ev.append("tg,%s" % a[0])
        elif name == "lock.try":
            fid = int(a[0])
            if 0 < fid < LOG_LOCK_MAGIC:
                ev.append("tl,%d,%s" % (fid, a[1]))
        elif name == "job.begin":
            fid = int(a[0])
            if a[1] == "unlocked":
                ev.append("tl,%d,1" % fid)          # force_owned: the caller holds the lock for us
            ev.append("bg,%d" % fid)
            s["cur"] = fid
        elif name in ("job.script", "job.oob"):
            fid = int(a[0])
            if s["cur"] == fid:
                ev.append("fk,%d" % fid)
                s["forked"].add(fid)
                s["cur"] = None
        elif name in ("job.record.end", "job.oob.end"):
            s["lastrv"][int(a[0])] = a[1] if len(a) > 1 else "1"
        elif name == "lock.unlock":
            fid = int(a[0])
            if not (0 < fid < LOG_LOCK_MAGIC):
                continue
            if fid in s["forked"]:
                ev.append("je,%d,%d" % (fid, 0 if s["lastrv"].get(fid, "1") == "0" else 1))
                s["forked"].discard(fid)
            elif s["cur"] == fid:
                ev.append("im,%d,%d" % (fid, 0 if result_of.get((pid, fid), "0") == "0" else 1))
                s["cur"] = None
            elif s["waited"] == fid:
                ev.append("ul,%d" % fid)
                s["waited"] = None
            elif s["fe"] == fid:
                s["fe"] = None
            else:
                ev.append("ul,%d" % fid)           # not explained by the control flow: let the acceptor say so
        elif name == "lock.wait.end":
            fid = int(a[0])
            if 0 < fid < LOG_LOCK_MAGIC:
                ev.append("wd,%d" % fid)
                s["waited"] = fid
        elif name == "run.release_mine":
            ev.append("rm")
        elif name == "run.waitall":
            ev.append("wa")
        elif name == "run.failed_elsewhere":
            ev.append("fe,%s" % a[0])
            s["fe"] = int(a[0])
        elif name == "run.bad_target":
            ev.append("bt")
        elif name == "run.drained":
            if a and a[0] == "err":
                k = len(ev)
                while k > 0 and ev[k - 1].startswith("je,"):
                    k -= 1
                ev.insert(k, "ab")
                ev.append("fi,0")
                s["done"] = True
        elif name == "run.end":
            ev.append("fi,%d" % (1 if a and a[0] == "ok" else 0))
            s["done"] = True
    return dict((pid, (s["kg"], s["ev"])) for pid, s in per.items())


def replay_runloop(trace, keep_going=None):
    """Replay every process's builder::run through the Lean acceptor RunLoop.step.  Returns (processes replayed,
    [(pid, answer, events)] for the rejected ones).  `keep_going`: fallback when a process logged no result check."""
    per = runloop_events(trace)
    if not per:
        return 0, []
    items = list(per.items())
    reqs = []
    for pid, (kg, ev) in items:
        k = kg if kg is not None else bool(keep_going)
        reqs.append("runloop-replay %s %s" % ("k" if k else "-", ";".join(ev) if ev else "-"))
    ans = run_lines(MODEL, reqs)
    bad = [(pid, a, ev) for (pid, (kg, ev)), a in zip(items, ans) if not a.startswith("ok")]
    return len(items), bad


def runloop_check(prop, tag, trace, viol, stats=None, scen=None):
    """Replay every process's builder::run of a trace through RunLoop; append a Violation when one is rejected.
    Returns True when all were accepted."""
    n, bad = replay_runloop(trace)
    if stats is not None:
        stats["runloop_processes"] = stats.get("runloop_processes", 0) + n
    if not bad:
        return True
    pid, ans, ev = bad[0]
    p = write_replay(prop, tag + "-runloop", dict(kind="trace-rejected-by-model", acceptor="RunLoop.step (RedoModel/RunLoop.lean): control flow of builder::run",
                                                    scenario=scen, pid=pid, answer=ans, events=ev, rejected_processes=len(bad),
                                                    replay="printf 'runloop-replay - %s\\n' | redomodel" % ";".join(ev)))
    viol.append(Violation(prop, p, "%s: the control flow of builder::run in process %d is rejected by the RunLoop model: %s" % (tag, pid, ans), no_input=True))
    return False
