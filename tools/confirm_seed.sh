#!/bin/bash
# usage: tools/confirm_seed.sh <Cxx> <patch file> <demo file> <out json>
# Confirms a seeded change in a scratch worktree of /repo HEAD: applies, test suite still passes, demo fails with / passes without.
set -u
ID="$1"; PATCH="$2"; DEMO="$3"; OUT="$4"
WT=/tmp/cs/wt-$ID-$$
export CARGO_NET_OFFLINE=true CARGO_TARGET_DIR="${CS_TARGET:-/tmp/cs/target}"
mkdir -p /tmp/cs
git -C /repo worktree add --detach "$WT" HEAD >/dev/null 2>&1 || { echo '{"error":"worktree"}' >"$OUT"; exit 1; }
cd "$WT"
mkbin() { B="$WT/.bin"; rm -rf "$B"; mkdir -p "$B"; cp "$CARGO_TARGET_DIR/debug/redo" "$B/redo"; for n in redo-ifchange redo-ifcreate redo-always redo-stamp redo-ood redo-targets redo-sources redo-log redo-whichdo redo-unlocked; do ln -s redo "$B/$n"; done; }
rundemo() { case "$DEMO" in *.sh) ( cd /tmp && timeout 600 bash "$DEMO" "$WT/.bin" ) >/tmp/cs/demo-$ID.log 2>&1; echo $?;; *) echo 99;; esac; }
APPLY=0; git apply "$PATCH" || APPLY=1
cargo build --offline -q 2>/dev/null; BUILD_W=$?
TESTS=$(cargo test --workspace --no-fail-fast --offline 2>&1 | grep -E "^test result" | awk '{p+=$4; f+=$6} END {print p" "f}')
mkbin; DEMO_WITH=$(rundemo)
git checkout -q -- . ; git clean -fdxq -e .bin
cargo build --offline -q 2>/dev/null
mkbin; DEMO_WITHOUT=$(rundemo)
cd /; git -C /repo worktree remove --force "$WT"
printf '{"id":"%s","patch":"%s","applies":%s,"build_rc":%s,"tests_passed_failed":"%s","demo_rc_with_patch":%s,"demo_rc_without_patch":%s}\n' "$ID" "$PATCH" "$([ $APPLY = 0 ] && echo true || echo false)" "$BUILD_W" "$TESTS" "$DEMO_WITH" "$DEMO_WITHOUT" >"$OUT"
cat "$OUT"
