HOOK_COMMITS = ["53036dc"]
NOT_APPLICABLE = {}
CLAIMS = {
 "C15": dict(
  text="Lean theorems (idempotence of lexical cleaning for every string, normal form, non-emptiness) about the component-level model of normpath; the model is tied to helpers::normpath / abs_path / state::relpath by an in-process differential check that is exhaustive over {/ . a b}^<=7 (quick) plus random long/unicode paths, and the idempotence and rejoin clauses are also monitored directly on the implementation.",
  design_ref="§7 C15, §4.1",
  note="Trusted: Lean kernel + 3 standard axioms; the differential harness (rh, tools/c15.py). canonicalize (symlink resolution) is the OS's and enters as a parameter. One-record/one-lock/one-build for two spellings on a command line is covered by the process-level scenarios (see evidence) — the known panic for `redo a ./a` is a recorded finding.",
  technique="Lean 4 proof (structural induction over the clean-up loop's output stack) + exhaustive small-alphabet differential correspondence"),
}
