HOOK_COMMITS = ["53036dc"]
NOT_APPLICABLE = {}
CLAIMS = {
 "C15": dict(
  text="Lean theorems (idempotence of lexical cleaning for every string, normal form, non-emptiness) about the component-level model of normpath; the model is tied to helpers::normpath / abs_path / state::relpath by an in-process differential check that is exhaustive over {/ . a b}^<=7 (quick) plus random long/unicode paths, and the idempotence and rejoin clauses are also monitored directly on the implementation.",
  design_ref="§7 C15, §4.1",
  note="Trusted: Lean kernel + 3 standard axioms; the differential harness (rh, tools/c15.py). canonicalize (symlink resolution) is the OS's and enters as a parameter. One-record/one-lock/one-build for two spellings on a command line is covered by the process-level scenarios (see evidence) — the known panic for `redo a ./a` is a recorded finding.",
  technique="Lean 4 proof (structural induction over the clean-up loop's output stack) + exhaustive small-alphabet differential correspondence"),
 "C13": dict(
  text="Lean theorems about the executable model of possible_do_files / DefaultDoFiles / path_splits and of the $1/$2/$3 construction: first candidate is <name>.do, completeness of (ancestor directory x dot-suffix) candidates plus default.do, $1 = $2 ++ ext, and redo-whichdo/find_do_file list exactly the prefix of candidates up to the first existing one. Tied to /repo by an in-process differential check of the whole candidate list (with arguments) over all names on {a . _}^<=5 x directory spellings (+unicode/space names), and at process level by placing a script at candidate positions and comparing redo-whichdo output, echoed $1/$2/$3/cwd and re-selection after adding/removing a higher-priority script.",
  design_ref="§7 C13, §4.2",
  note="Trusted: Lean kernel + 3 standard axioms; rh and tools/c13.py; file existence is a parameter of the model. The root path `/` has no final component and is rejected by both sides (guard stated in DESIGN).",
  technique="Lean 4 proof (list induction) over an executable model + differential correspondence (in-process and process-level)"),
 "C18": dict(
  text="Lean theorems about the record syntax: parse(format r) = r for every kind without ':', '@', newline, every canonical pid/timestamp token and every newline-free text; done-text round trip for any name; validity of written lines; the record syntax constants are re-extracted from src/logs.rs on every run. The replay function catlog is modelled executably (recursion through do/unchanged/waiting records, the `already` set, resumed markers, clean_line). Tied to /repo by: in-process differential of Meta::parse/Display/parse_done_text on a seeded grammar incl. malformed lines; synthetic log forests written into a real .redo and replayed by the real redo-log -r/-u versus the model; live builds at several -j whose numbered/partial/70kB lines must appear once, in order, under their target in live output and replay.",
  design_ref="§7 C18, §4.3",
  note="Trusted: Lean kernel + 3 standard axioms; rh, tools/c18.py. Timestamps are opaque canonical tokens. The --follow loop is exercised on the implementation only (live monitor), not proven. Known finding: a stderr line with record syntax is consumed as a record.",
  technique="Lean 4 proof (list lemmas on the record grammar) + differential correspondence and synthetic-forest replay against the real redo-log"),
}
