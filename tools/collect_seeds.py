#!/usr/bin/env python3
"""Collect confirmed seeded changes from /tmp/seeded_out + /tmp/cs/out into /verif/seeded/<id>/."""
import glob, json, os, re, shutil, sys
V = os.path.dirname(os.path.dirname(os.path.abspath(__file__)))
props = {json.loads(l)["id"]: json.loads(l) for l in open(os.path.join(V, "properties.jsonl"))}
for conf in sorted(glob.glob("/tmp/cs/out/*.json")):
    c = json.load(open(conf))
    pid = c["id"]; patch = c["patch"]; k = re.search(r"patch(\d*)\.diff", patch).group(1)
    ok = c["applies"] and c["build_rc"] == 0 and c["tests_passed_failed"].endswith(" 0") and c["demo_rc_with_patch"] not in (0, 99) and c["demo_rc_without_patch"] == 0
    if not ok:
        print("NOT CONFIRMED", conf, c); continue
    d = os.path.join(V, "seeded", pid); os.makedirs(d, exist_ok=True)
    src = os.path.dirname(patch)
    shutil.copy(patch, os.path.join(d, "patch%s.diff" % k))
    shutil.copy(os.path.join(src, "demo%s.sh" % k), os.path.join(d, "demo%s.sh" % k))
    if os.path.exists(os.path.join(src, "notes.md")):
        shutil.copy(os.path.join(src, "notes.md"), os.path.join(d, "notes.md"))
    mp = os.path.join(d, "meta.json")
    meta = json.load(open(mp)) if os.path.exists(mp) else dict(property=pid, title=props[pid]["title"], changes=[])
    meta["changes"] = [x for x in meta["changes"] if x["patch"] != "patch%s.diff" % k]
    notes = open(os.path.join(src, "notes.md")).read() if os.path.exists(os.path.join(src, "notes.md")) else ""
    meta["changes"].append(dict(patch="patch%s.diff" % k, demo="demo%s.sh" % k, breaks=pid,
        needs="see notes.md (section for patch%s)" % (k or "1"),
        confirmed=dict(how="tools/confirm_seed.sh in a scratch worktree of /repo HEAD: git apply; cargo test --workspace --no-fail-fast --offline; demo with patch; demo without patch",
                       tests_passed_failed=c["tests_passed_failed"], demo_rc_with_patch=c["demo_rc_with_patch"], demo_rc_without_patch=c["demo_rc_without_patch"]),
        detected_by=meta.get("detected", {}).get("patch%s.diff" % k)))
    meta["changes"].sort(key=lambda x: x["patch"])
    json.dump(meta, open(mp, "w"), indent=1)
print("ok")
