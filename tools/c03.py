"""C03 — decided on the serial dependency engine; see deps_check.py (shared body) and DESIGN §7.  Plus one directed
parallel scenario: a checksummed target that stamps early and is still running while a second dependent asks for it."""
import os
import deps_check
from c_deps_common import *
from common import *
from proj import Project
import sched


def parallel_forward(viol):
    """all -> {D1 -> T, D2 -> {d2src, T}}, T (checksummed) -> src.  T stamps and then keeps running; D2 (dirty for a
    reason of its own) asks for T inside that window while the out-of-band rebuild started for D1 holds T's lock.
    When the checksum of T changes, D2 must be built from the new T before `redo -j4 all` returns success."""
    pr = Project()
    try:
        pr.write("T.do", 'redo-ifchange src\ncat src >"$3"\nredo-stamp <"$3"\nsleep 0.9\n')
        pr.write("D1.do", "redo-ifchange T\ncat T\n")
        pr.write("D2.do", "redo-ifchange d2src\nsleep 0.4\nredo-ifchange T\ncat d2src T\n")
        pr.write("all.do", "redo-ifchange D1 D2\n")
        pr.write("src", "s1\n")
        pr.write("d2src", "x1\n")
        r0 = sched.run_cmds(pr, [["redo", "-j4", "all"]], timeout=60)[0]
        pr.write("src", "s2\n")
        pr.write("d2src", "x2\n")
        r1 = sched.run_cmds(pr, [["redo", "-j4", "all"]], timeout=60)[0]
        d1, d2 = pr.read("D1"), pr.read("D2")
        r2 = sched.run_cmds(pr, [["redo-ifchange", "all"]], timeout=60)[0]
        problems = []
        if r0.rc != 0 or r1.rc != 0:
            problems.append("exit statuses %s %s" % (r0.rc, r1.rc))
        if d1 != b"s2\n":
            problems.append("D1 holds %r (expected the new T)" % d1)
        if d2 != b"x2\ns2\n":
            problems.append("D2 holds %r after `redo -j4 all` returned %s (expected x2 + the new T)" % (d2, r1.rc))
        if pr.read("D2") != b"x2\ns2\n":
            problems.append("and a following redo-ifchange all leaves it so")
        if problems:
            p = write_replay("C03", "parallel-forward", dict(kind="impl-monitor", problems=problems, stderr=r1.err[-1500:],
                                                             scenario="T.do: redo-ifchange src; cat src >$3; redo-stamp <$3; sleep 0.9.  D1: redo-ifchange T.  D2: redo-ifchange d2src; sleep 0.4; redo-ifchange T.  build; edit src and d2src; redo -j4 all"))
            viol.append(Violation("C03", p, "changed checksum not forwarded within the command: " + "; ".join(problems)))
    finally:
        pr.destroy()


def piecewise_stamp(viol):
    """The checksum covers ALL the data piped to redo-stamp, however it arrives: in several pieces with pauses between
    them (`{ cat head; sleep; cat body; } | redo-stamp`), or as one megabyte through a pipe (many reads).  A change in
    a later piece changes the checksum, so every dependent is rebuilt before the command returns; an unchanged stream
    rebuilds nothing above the stamped target."""
    pr = Project()
    try:
        pr.write("head", "h1\n")
        pr.write("body", "b1\n")
        pr.write("big", "x" * 1048576 + "tail-1\n")
        pr.write("s.do", 'redo-ifchange head body\n{ cat head; sleep 0.3; cat body; sleep 0.2; echo end; } | redo-stamp\ncat head body >"$3"\n')
        pr.write("g.do", 'redo-ifchange big\ncat big | redo-stamp\ntail -c 7 big >"$3"\n')
        pr.write("d.do", 'redo-ifchange s g\necho ran >>d.runs\ncat s g >"$3"\n')
        pr.write("all.do", "redo-ifchange d\n")
        r0 = pr.run(["redo-ifchange", "all"], timeout=60)
        pr.write("body", "b2\n")
        r1 = pr.run(["redo-ifchange", "all"], timeout=60)
        d1 = pr.read("d")
        pr.write("big", "x" * 1048576 + "tail-2\n")
        r2 = pr.run(["redo-ifchange", "all"], timeout=60)
        d2 = pr.read("d")
        n2 = len((pr.read("d.runs") or b"").split())
        pr.write("head", "h1\n")          # rewritten with the same data: s is rebuilt, its checksum stays
        r3 = pr.run(["redo-ifchange", "all"], timeout=60)
        n3 = len((pr.read("d.runs") or b"").split())
        problems = []
        if any(r[0] != 0 for r in (r0, r1, r2, r3)):
            problems.append("exit statuses %r" % [r[0] for r in (r0, r1, r2, r3)])
        if d1 != b"h1\nb2\ntail-1\n":
            problems.append("after the LATER piece of the stamped stream changed, d holds %r (expected the new body): the checksum did not cover it" % d1)
        if d2 != b"h1\nb2\ntail-2\n":
            problems.append("after the end of a 1 MB stamped stream changed, d holds %r" % d2)
        if n2 != 3:
            problems.append("d.do ran %d times over three builds with changed checksums (expected 3)" % n2)
        if n3 != n2:
            problems.append("d.do ran again although the stamped stream was byte-identical")
        if problems:
            p = write_replay("C03", "piecewise-stamp", dict(kind="impl-monitor", problems=problems, stderr=[r[2][-500:] for r in (r1, r2, r3)],
                                                            scenario="s.do: { cat head; sleep 0.3; cat body; sleep 0.2; echo end; } | redo-stamp.  g.do: cat big(1 MB) | redo-stamp.  d.do: redo-ifchange s g.  edit body; edit the tail of big; rewrite head unchanged"))
            viol.append(Violation("C03", p, "data piped to redo-stamp in pieces: " + "; ".join(problems)))
    finally:
        pr.destroy()


def second_command_in_stamp_window(viol):
    """Two top-level commands.  A rebuilds a checksummed target S on request (`redo S`; the result is byte-identical);
    while S's script is still running after its redo-stamp, B (`redo-ifchange D`, D depends on S) walks over S, finds
    nothing to do and leaves its own "checked" mark there.  S's unchanged checksum must survive that: D is not rebuilt —
    not by A, not by B, not by a later redo-ifchange — and the next real change of S's content still rebuilds D once."""
    import subprocess, time as _t
    from proj import clean_env
    pr = Project()
    try:
        pr.write("src", "one\n")
        pr.write("S.do", 'redo-ifchange src\ncat src >"$3"\nredo-stamp <"$3"\n: >stamped\nn=0\nwhile [ -e hold ] && [ $n -lt 200 ]; do sleep 0.05; n=$((n+1)); done\n')
        pr.write("D.do", 'redo-ifchange S\necho ran >>D.runs\ncat S >"$3"\n')
        r0 = pr.run(["redo-ifchange", "D"], timeout=60)
        pr.write("hold", "")
        pr.rm("stamped")
        a = subprocess.Popen(["redo", "S"], cwd=pr.root, env=clean_env(), stdin=subprocess.DEVNULL, stdout=subprocess.PIPE, stderr=subprocess.PIPE, start_new_session=True)
        t0 = _t.time()
        while not os.path.exists(pr.path("stamped")) and _t.time() - t0 < 20 and a.poll() is None:
            _t.sleep(0.02)
        rb = pr.run(["redo-ifchange", "D"], timeout=60)
        pr.rm("hold")
        try:
            ea = a.communicate(timeout=60)[1].decode("utf-8", "replace")
            rca = a.returncode
        except subprocess.TimeoutExpired:
            a.kill()
            ea, rca = "timeout", -999
        n1 = len((pr.read("D.runs") or b"").split())
        r2 = pr.run(["redo-ifchange", "D"], timeout=60)
        n2 = len((pr.read("D.runs") or b"").split())
        r3 = pr.run(["redo", "S"], timeout=60)                    # once more, alone: still the same checksum
        r4 = pr.run(["redo-ifchange", "D"], timeout=60)
        n4 = len((pr.read("D.runs") or b"").split())
        pr.write("src", "two\n")
        r5 = pr.run(["redo-ifchange", "D"], timeout=60)
        n5 = len((pr.read("D.runs") or b"").split())
        problems = []
        if any(r[0] != 0 for r in (r0, rb, r2, r3, r4, r5)) or rca != 0:
            problems.append("exit statuses %r, A: %r" % ([r[0] for r in (r0, rb, r2, r3, r4, r5)], rca))
        if n1 != 1 or n2 != 1:
            problems.append("D.do ran %d time(s) by the end of the two commands and %d after the next redo-ifchange D although S's content never changed (expected 1: the first build)" % (n1, n2))
        elif n4 != 1:
            problems.append("after another `redo S` with identical content, redo-ifchange D ran D.do again: S's checksum was lost")
        if not problems and (n5 != 2 or pr.read("D") != b"two\n"):
            problems.append("after src really changed D.do ran %d times in all and D holds %r (expected 2, b'two\\n')" % (n5, pr.read("D")))
        if problems:
            p = write_replay("C03", "stamp-window", dict(kind="impl-monitor", problems=problems, stderr=dict(A=ea[-600:], B=rb[2][-600:]),
                                                         scenario="S.do: redo-ifchange src; cat src >$3; redo-stamp <$3; wait while `hold` exists.  D.do: redo-ifchange S; cat S.  redo-ifchange D; A = redo S (held after its redo-stamp); B = redo-ifchange D meanwhile; release; redo-ifchange D; redo S; redo-ifchange D; edit src; redo-ifchange D"))
            viol.append(Violation("C03", p, "a second command walks over a checksummed target between its redo-stamp and the end of its script: " + "; ".join(problems)))
    finally:
        pr.destroy()


def conditional_stamp_scenario(viol):
    """A target that records a checksum in some builds only (cfg.do stamps when `mode` says so): stamped with data X, then
    built without redo-stamp with other content, then stamped with X again.  The third build changes cfg; the dependent
    must be rebuilt before the command returns success (the checksum of the first build must not be the one compared)."""
    from proj import Project
    pr = Project()
    try:
        pr.write("all.do", "redo-ifchange app\n")
        pr.write("app.do", 'redo-ifchange cfg\necho "app built from: $(cat cfg)" >$3\n')
        pr.write("cfg.do", 'redo-ifchange mode input\nif [ "$(cat mode)" = stamped ]; then cat input >$3; redo-stamp <$3; else echo "plain: $(cat input)" >$3; fi\n')
        pr.write("input", "v1\n")
        hist = []
        for mode in ("stamped", "plain", "stamped", "plain", "stamped"):
            pr.write("mode", mode + "\n")
            rc, o, e = pr.run(["redo", "all"], timeout=60)
            cfg = (pr.read("cfg") or b"").decode().strip()
            app = (pr.read("app") or b"").decode().strip()
            hist.append((mode, rc, cfg, app))
            if rc != 0 or app != "app built from: " + cfg:
                p = write_replay("C03", "conditional-stamp", dict(kind="impl-monitor", clause="when its checksum does change, every dependent is rebuilt before the same top-level command returns success", history=hist,
                                                                  scenario="cfg.do: redo-ifchange mode input; stamped mode: cat input >$3; redo-stamp <$3; plain mode: echo plain: … >$3.  app.do: redo-ifchange cfg.  redo all with mode = stamped, plain, stamped, plain, stamped"))
                viol.append(Violation("C03", p, "a target that stamps in some builds only: after `redo all` (exit %d, mode %s) cfg holds %r but app holds %r" % (rc, mode, cfg, app)))
                return
    finally:
        pr.destroy()


def killed_second_phase_scenario(viol):
    """The process that has to rebuild the dependent after an out-of-band rebuild changed the checksum is killed by a
    signal (app.do kills the redo-ifchange that runs it — think OOM killer).  The dependent is then NOT rebuilt, so the
    top-level command must not return success."""
    from proj import Project
    pr = Project()
    try:
        pr.write("all.do", "redo-ifchange app\n")
        pr.write("app.do", 'redo-ifchange ver\nif [ -e killme ]; then rm -f killme; echo $PPID >killed; kill -9 $PPID; exit 0; fi\necho "app built from: $(cat ver)" >$3\n')
        pr.write("ver.do", "redo-ifchange src\ncat src >$3\nredo-stamp <$3\n")
        pr.write("src", "v1\n")
        rc1, o, e = pr.run(["redo", "all"], timeout=60)
        pr.write("src", "v2\n")
        pr.write("killme", "")
        rc2, o2, e2 = pr.run(["redo", "all"], timeout=60)
        import time
        time.sleep(0.3)
        ver = (pr.read("ver") or b"").decode().strip()
        app = (pr.read("app") or b"").decode().strip()
        if rc1 == 0 and pr.read("killed") is not None and rc2 == 0 and app != "app built from: " + ver:
            p = write_replay("C03", "killed-second-phase", dict(kind="impl-monitor", clause="when its checksum does change, every dependent is rebuilt before the same top-level command returns success", rc=rc2, ver=ver, app=app, stderr=e2[-800:],
                                                                scenario="ver.do stamps src; app.do: redo-ifchange ver; on the rebuild after the edit app.do kills its own redo-ifchange (kill -9 $PPID) and exits"))
            viol.append(Violation("C03", p, "the process rebuilding the dependent after a checksum change was killed by a signal: `redo all` exits 0, ver holds %r, app holds %r" % (ver, app)))
    finally:
        pr.destroy()


def run(ctx):
    cov = deps_check.run_property(ctx, "C03", FEATURES["C03"], NCASES["C03"], WANT["C03"], known_matcher=KNOWN.get("C03"))
    viol = ctx.setdefault("violations", [])
    if not viol and not ctx.get("replay"):
        parallel_forward(viol)
        cov["directed_scenarios"] = 1
    if not viol and not ctx.get("replay"):
        piecewise_stamp(viol)
        cov["directed_scenarios"] = 2
    if not viol and not ctx.get("replay"):
        second_command_in_stamp_window(viol)
        cov["directed_scenarios"] = 3
    if not viol and not ctx.get("replay"):
        conditional_stamp_scenario(viol)
        cov["directed_scenarios"] = 4
    if not viol and not ctx.get("replay"):
        killed_second_phase_scenario(viol)
        cov["directed_scenarios"] = 5
    return cov
