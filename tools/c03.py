"""C03 — decided on the serial dependency engine; see deps_check.py (shared body) and DESIGN §7."""
import deps_check
from c_deps_common import *

def run(ctx):
    return deps_check.run_property(ctx, "C03", FEATURES["C03"], NCASES["C03"], WANT["C03"], known_matcher=KNOWN.get("C03"))
