"""C06 — at most one .do runs for a given target at any time.
Correspondence: lock and job events (hooks lock.*, job.*) of all processes of 1-3 concurrently started
invocations are replayed through the Lean acceptor `Locks.step` (kernel guard + local guards); the theorems
derive global exclusion from those guards.  Implementation monitor, independent of the hooks: instrumented
scripts record begin/end; two executions of one target must never overlap."""
import random
from common import *
from proj import Project
import sched

ASSUMPTIONS = [
    "fcntl write locks are exclusive between processes and vanish with their owner (kernel, not verified)",
    "lock acquisition is logged after the fcntl, release before it, so file order is consistent with ownership",
    "executions in REDO_UNLOCKED mode are checked by global guards on the trace, not derived from local ones",
]


def abandon_scenario(viol, known_hit, stats):
    """An error leaves builder::run while jobs are running (cyclic dependency found after two slow jobs started)."""
    pr = Project()
    try:
        pr.write("slow1.do", 'echo "B $$ slow1 $(date +%s%N)" >>"$VERIF_WORK"; sleep 0.8; echo "E $$ slow1 $(date +%s%N)" >>"$VERIF_WORK"; echo s1\n')
        pr.write("slow2.do", 'echo "B $$ slow2 $(date +%s%N)" >>"$VERIF_WORK"; sleep 0.8; echo "E $$ slow2 $(date +%s%N)" >>"$VERIF_WORK"; echo s2\n')
        pr.write("X.do", "redo-ifchange Y\necho x\n")
        pr.write("Y.do", "redo-ifchange slow1 slow2 X\necho y\n")
        pr.write("W.do", "sleep 0.3\nredo-ifchange slow1\necho w\n")
        rs = sched.run_cmds(pr, [["redo", "-j3", "--no-log", "X"], ["redo", "W"]], timeout=30)
        time.sleep(1.0)
        stats["runs"] += 1
        ans, ev = sched.replay_locks(rs[0].trace)
        sched.runloop_check("C06", "abandon", rs[0].trace, viol, stats)
        over, counts = sched.target_overlaps(sched.parse_work(pr.path(".verif-work")))
        left = [f for f in os.listdir(pr.root) if f.endswith(".redo.tmp")]
        bad = (not ans.startswith("ok")) or over or left
        if bad:
            kf = [k for k in known_findings("C06") if k.get("id") == "error-abandons-running-jobs" and k.get("status") == "known"]
            what = "Y.do: redo-ifchange slow1 slow2 X (X is an ancestor): the cyclic-dependency error returns from builder::run while slow1/slow2 run; model: %s; overlapping executions: %r; temp files left: %r" % (ans[:160], over, left)
            if kf:
                known_hit.append(what)
            else:
                p = write_replay("C06", "abandon", dict(kind="trace-rejected+impl-monitor", answer=ans, events=ev, overlaps=over, tmp_left=left, stderr=[r.err[-800:] for r in rs]))
                viol.append(Violation("C06", p, what))
    finally:
        pr.destroy()


def failfast_scenario(viol, stats):
    """Without -k, a failure is noticed while another job of the same invocation is still running and more targets
    are waiting for a token: the invocation must keep the running job's lock until its result is recorded; a second
    invocation asks for that target meanwhile."""
    for j, extra in ((2, 6), (3, 8)):
        pr = Project()
        try:
            pr.write("slow.do", 'echo "B $$ slow $(date +%s%N)" >>"$VERIF_WORK"; sleep 0.9; echo "E $$ slow $(date +%s%N)" >>"$VERIF_WORK"; echo slow\n')
            pr.write("bad.do", "sleep 0.15; exit 3\n")
            names = ["e%d" % i for i in range(extra)]
            for n in names:
                pr.write(n + ".do", "echo %s\n" % n)
            rs = sched.run_cmds(pr, [["redo", "-j%d" % j, "--no-log", "slow", "bad"] + names, ["redo", "slow"]], timeout=30, stagger=0.45)
            time.sleep(0.3)
            stats["runs"] += 1
            ans, ev = sched.replay_locks(rs[0].trace)
            sched.runloop_check("C06", "failfast", rs[0].trace, viol, stats)
            over, counts = sched.target_overlaps(sched.parse_work(pr.path(".verif-work")))
            left = [f for f in os.listdir(pr.root) if f.endswith(".redo.tmp")]
            if (not ans.startswith("ok")) or over or left or any(r.timed_out for r in rs):
                p = write_replay("C06", "failfast-j%d" % j, dict(kind="trace-rejected+impl-monitor", answer=ans, events=ev, overlaps=over, tmp_left=left,
                                                                 commands=["redo -j%d --no-log slow bad %s" % (j, " ".join(names)), "redo slow (0.45 s later)"], stderr=[r.err[-800:] for r in rs]))
                viol.append(Violation("C06", p, "a failing sibling at -j%d while `slow` runs, second `redo slow` meanwhile: model: %s; overlapping executions: %r; temp files left: %r" % (j, ans[:160], over, left)))
                return
        finally:
            pr.destroy()


def oob_scenario(viol, stats):
    """Out-of-band re-decision (redo-unlocked): T depends on a checksummed m and on y (which depends on m).  After the
    source of m changes, `redo-ifchange T` rebuilds m first and then runs T.do in unlocked mode for T only; T.do's own
    `redo-ifchange m y` must lock y as usual.  A second invocation asks for y meanwhile."""
    pr = Project()
    try:
        pr.write("src", "1\n")
        pr.write("m.do", 'redo-ifchange src\ncat src >"$3"\nredo-stamp <"$3"\n')
        pr.write("y.do", 'redo-ifchange m\necho "B $$ y $(date +%s%N)" >>"$VERIF_WORK"; sleep 0.7; echo "E $$ y $(date +%s%N)" >>"$VERIF_WORK"\ncat m\n')
        pr.write("T.do", "redo-ifchange m y\ncat m y\n")
        r0 = sched.run_cmds(pr, [["redo-ifchange", "T"]], timeout=30)[0]
        pr.write("src", "2\n")
        rs = sched.run_cmds(pr, [["redo-ifchange", "T"], ["redo-ifchange", "y"]], timeout=30, stagger=0.35)
        stats["runs"] += 2
        stats["oob_jobs"] = stats.get("oob_jobs", 0) + sum(1 for e in rs[0].trace if e[2] == "job.oob")
        ans, ev = sched.replay_locks(rs[0].trace)
        sched.runloop_check("C06", "oob", rs[0].trace, viol, stats)
        over, counts = sched.target_overlaps(sched.parse_work(pr.path(".verif-work")))
        bad = r0.rc != 0 or any(r.rc != 0 or r.timed_out for r in rs) or over or not ans.startswith("ok") or pr.read("T") != b"2\n2\n"
        if bad:
            p = write_replay("C06", "oob", dict(kind="trace-rejected+impl-monitor", answer=ans, events=ev, overlaps=over, rcs=[r0.rc] + [r.rc for r in rs], T=repr(pr.read("T")),
                                                commands=["redo-ifchange T", "echo 2 >src", "redo-ifchange T & (0.35 s later) redo-ifchange y"], stderr=[r.err[-800:] for r in rs]))
            viol.append(Violation("C06", p, "rebuild through redo-unlocked beside a second invocation: model: %s; overlapping executions: %r; statuses %r; T=%r" % (ans[:160], over, [r.rc for r in rs], pr.read("T"))))
    finally:
        pr.destroy()


def three_party_scenario(viol, stats):
    """P1 (`redo -j2 a b`) has the job for `a` in flight when it meets `b`, which P2 (`redo b`, started first) is
    building; while P1 handles the locked `b` (logs, queues, waits), P3 (`redo-ifchange a`) asks for `a`.  P1 must
    still hold the lock of `a`: P3 waits, and `a` runs once."""
    pr = Project()
    try:
        pr.write("a.do", 'echo "B $$ a $(date +%s%N)" >>"$VERIF_WORK"; sleep 1.4; echo "E $$ a $(date +%s%N)" >>"$VERIF_WORK"; echo a\n')
        pr.write("b.do", 'echo "B $$ b $(date +%s%N)" >>"$VERIF_WORK"; sleep 1.4; echo "E $$ b $(date +%s%N)" >>"$VERIF_WORK"; echo b\n')
        rs = sched.run_cmds(pr, [["redo", "b"], ["redo", "-j2", "a", "b"], ["redo-ifchange", "a"]], timeout=40, stagger=0.35)
        stats["runs"] += 1
        ans, ev = sched.replay_locks(rs[0].trace)
        sched.runloop_check("C06", "three-party", rs[0].trace, viol, stats)
        over, counts = sched.target_overlaps(rs[0].work)
        bad = any(r.rc != 0 or r.timed_out for r in rs) or over or not ans.startswith("ok") or counts.get("a", 0) != 1
        if bad and not viol:
            p = write_replay("C06", "three-party", dict(kind="trace-rejected+impl-monitor", answer=ans, events=ev, overlaps=over, counts=counts, rcs=[r.rc for r in rs], stderr=[r.err[-600:] for r in rs],
                                                        scenario="a.do, b.do: sleep 1.4.  `redo b`; 0.35 s later `redo -j2 a b`; 0.35 s later `redo-ifchange a`"))
            viol.append(Violation("C06", p, "a job in flight while its process handles a target locked by another process, and a third process asks for the job's target: model: %s; overlapping executions: %r; executions: %r; statuses %r" % (ans[:160], over, counts, [r.rc for r in rs])))
    finally:
        pr.destroy()


def two_spellings_scenario(viol, stats):
    """One target asked for by two invocations through two spellings (a symlinked directory and the real one; `..`
    after a symlink): the lock is the database row's id, so both must queue on one lock — one execution at a time."""
    import os as _os
    for sp1, sp2 in (("real/x", "link/x"), ("link/x", "real/../real/x")):
        pr = Project()
        try:
            _os.makedirs(pr.path("real"))
            _os.symlink("real", pr.path("link"))
            pr.write("real/x.do", 'echo "B $$ x $(date +%s%N)" >>"$VERIF_WORK"; sleep 0.8; echo "E $$ x $(date +%s%N)" >>"$VERIF_WORK"\necho x\n')
            rs = sched.run_cmds(pr, [["redo", sp1], ["redo", sp2]], timeout=30, stagger=0.3)
            stats["runs"] += 1
            over, counts = sched.target_overlaps(sched.parse_work(pr.path(".verif-work")))
            if over or any(r.rc != 0 or r.timed_out for r in rs):
                p = write_replay("C06", "two-spellings", dict(kind="impl-monitor", commands=["redo " + sp1, "(0.3 s later) redo " + sp2], tree="real/, link -> real, real/x.do",
                                                              overlaps=over, executions=counts, rcs=[r.rc for r in rs], stderr=[r.err[-600:] for r in rs]))
                viol.append(Violation("C06", p, "`redo %s` beside `redo %s` (one file): overlapping executions %r, exit statuses %r" % (sp1, sp2, over, [r.rc for r in rs])))
                return
        finally:
            pr.destroy()
    # the same for a target several not-yet-existing directory levels below the symlinked directory, built by a rule in an
    # ancestor that creates the directories itself (the name must be resolved from its longest existing leading part)
    pr = Project()
    try:
        _os.makedirs(pr.path("real"))
        _os.symlink("real", pr.path("link"))
        pr.write("default.data.do", 'echo "B $$ x $(date +%s%N)" >>"$VERIF_WORK"; sleep 0.8; echo "E $$ x $(date +%s%N)" >>"$VERIF_WORK"\nmkdir -p "$(dirname "$1")"\necho data\n')
        rs = sched.run_cmds(pr, [["redo", "real/out/gen/x.data"], ["redo", "link/out/gen/x.data"]], timeout=30, stagger=0.3)
        stats["runs"] += 1
        over, counts = sched.target_overlaps(sched.parse_work(pr.path(".verif-work")))
        if over or any(r.rc != 0 or r.timed_out for r in rs):
            p = write_replay("C06", "two-spellings-deep", dict(kind="impl-monitor", commands=["redo real/out/gen/x.data", "(0.3 s later) redo link/out/gen/x.data"], tree="real/, link -> real, default.data.do (mkdir -p of the target's directory); out/gen does not exist yet",
                                                               overlaps=over, executions=counts, rcs=[r.rc for r in rs], stderr=[r.err[-600:] for r in rs]))
            viol.append(Violation("C06", p, "`redo real/out/gen/x.data` beside `redo link/out/gen/x.data` (one file, two missing directory levels): overlapping executions %r, exit statuses %r" % (over, [r.rc for r in rs])))
    finally:
        pr.destroy()


def run(ctx):
    rng = random.Random(ctx["seed"] * 19 + 6)
    viol = ctx.setdefault("violations", [])
    thorough = ctx["tier"] == "thorough"
    n = 100 if thorough else 18
    stats = dict(runs=0, invocations=0, events=0, executions=0, contended=0, failing=0, max_exec_per_target=0)
    samples, known_hit = [], []
    for i in range(n):
        pr = Project()
        try:
            g = sched.gen_graph(rng, rng.randint(3, 9))
            if rng.random() < 0.3:
                for nm in rng.sample(sorted(g), max(1, len(g) // 4)):
                    g[nm]["fail"] = True
            if rng.random() < 0.3:
                for nm in g:
                    g[nm]["stamp"] = rng.random() < 0.4
                    g[nm]["always"] = rng.random() < 0.2
            sched.write_project(pr, g)
            k = rng.choice([1, 2, 2, 3])
            cmds = []
            for _ in range(k):
                cmds.append(rng.choice([["redo", "-j%d" % rng.randint(1, 3), "all"], ["redo-ifchange", "all"],
                                        ["redo-ifchange", rng.choice(sorted(g))], ["redo", "-k", "-j2", "all"]]))
            rs = sched.run_cmds(pr, cmds, timeout=60, stagger=rng.choice([0, 0.01, 0.05, 0.15]))
            stats["runs"] += 1
            stats["invocations"] += k
            ans, ev = sched.replay_locks(rs[0].trace)
            sched.runloop_check("C06", "random", rs[0].trace, viol, stats)
            stats["events"] += len(ev)
            stats["contended"] += sum(1 for e in ev if e.startswith("lf,"))
            stats["failing"] += sum(1 for r in rs if r.rc != 0)
            over, counts = sched.target_overlaps(rs[0].work)
            stats["executions"] += sum(counts.values())
            stats["max_exec_per_target"] = max([stats["max_exec_per_target"]] + list(counts.values()))
            scen = dict(commands=cmds, graph={a: v["deps"] for a, v in g.items()}, failing=[a for a, v in g.items() if v["fail"]])
            if over:
                p = write_replay("C06", "overlap-%d" % i, dict(kind="impl-monitor", scenario=scen, overlapping=over, work=rs[0].work[:200], model=ans))
                viol.append(Violation("C06", p, "two executions of the build script of %r overlapped in time (%s)" % (over, cmds)))
                break
            if not ans.startswith("ok"):
                p = write_replay("C06", "trace-%d" % i, dict(kind="trace-rejected-by-model", scenario=scen, answer=ans, events=ev, stderr=[r.err[-600:] for r in rs]))
                viol.append(Violation("C06", p, "lock/job trace rejected by the model: " + ans, no_input="local" not in ans and "kernel" not in ans))
                break
            if any(r.timed_out for r in rs):
                p = write_replay("C06", "hang-%d" % i, dict(kind="impl-monitor", scenario=scen, stderr=[r.err[-1500:] for r in rs]))
                viol.append(Violation("C06", p, "invocations did not finish within 60 s: %s" % cmds))
                break
            if len(samples) < 2 and k > 1:
                samples.append(dict(scenario=scen, answer=ans, first_events=ev[:16]))
            # second round on the built project: the script of a low node changes, so checksummed nodes above it are
            # "maybe dirty" and their dependents are re-decided out of band (redo-unlocked) while other invocations compete
            stamped = [a for a, v in g.items() if v.get("stamp")]
            if stamped and not any(v["fail"] for v in g.values()) and all(r.rc == 0 for r in rs):
                low = sorted(g)[0]
                pr.write(low + ".do", open(pr.path(low + ".do")).read() + "# round 2\n")
                cmds2 = [rng.choice([["redo-ifchange", "all"], ["redo", "-j2", "all"], ["redo-ifchange", rng.choice(sorted(g))]]) for _ in range(rng.choice([2, 3]))]
                rs2 = sched.run_cmds(pr, cmds2, timeout=60, stagger=rng.choice([0, 0.02, 0.08]))
                stats["runs"] += 1
                stats["invocations"] += len(cmds2)
                stats["second_rounds"] = stats.get("second_rounds", 0) + 1
                stats["oob_jobs"] = stats.get("oob_jobs", 0) + sum(1 for e in rs2[0].trace if e[2] == "job.oob")
                ans2, ev2 = sched.replay_locks(rs2[0].trace)
                sched.runloop_check("C06", "second-round", rs2[0].trace, viol, stats)
                over2, counts2 = sched.target_overlaps(rs2[0].work)
                scen2 = dict(scen, second_round=cmds2, changed=low + ".do", stamped=stamped)
                if over2:
                    p = write_replay("C06", "overlap2-%d" % i, dict(kind="impl-monitor", scenario=scen2, overlapping=over2, work=rs2[0].work[:200], model=ans2))
                    viol.append(Violation("C06", p, "two executions of the build script of %r overlapped in time in a rebuild with out-of-band re-decisions (%s)" % (over2, cmds2)))
                    break
                if not ans2.startswith("ok"):
                    p = write_replay("C06", "trace2-%d" % i, dict(kind="trace-rejected-by-model", scenario=scen2, answer=ans2, events=ev2, stderr=[r.err[-600:] for r in rs2]))
                    viol.append(Violation("C06", p, "lock/job trace of a rebuild rejected by the model: " + ans2, no_input="local" not in ans2 and "kernel" not in ans2))
                    break
        finally:
            pr.destroy()
    if not viol:
        two_spellings_scenario(viol, stats)
    if not viol:
        abandon_scenario(viol, known_hit, stats)
    if not viol:
        failfast_scenario(viol, stats)
    if not viol:
        oob_scenario(viol, stats)
    if not viol:
        three_party_scenario(viol, stats)
    return dict(evaluations=stats["events"], distinct_nontrivial=stats["runs"],
                rule="seeded random graphs (3-9 targets; failing, checksummed, always targets) built by 1-3 simultaneously started invocations (redo -j1..3 [-k], redo-ifchange of the whole graph or one target) with start offsets 0-150 ms; every lock/job event replayed by the Lean acceptor; scripts record their own begin/end for the overlap monitor; plus the error-while-jobs-run scenario and the failing-sibling-while-a-job-runs scenario (second invocation asks for the running target), the out-of-band (redo-unlocked) rebuild beside a second invocation, and a second round on every project with checksummed nodes; distinct = runs",
                samples=samples, traces_validated_against_impl=stats["runs"], disagreements_checked=stats["events"], distribution=stats, known_hit=known_hit)
