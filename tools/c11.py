"""C11 — decided on the serial dependency engine; see deps_check.py (shared body) and DESIGN §7.
Plus the stamp layer: the strings `Stamp::from_metadata` writes into the database and `Stamp::detect_override`
(the test that keeps redo from overwriting a file somebody edited) against `RedoModel/StampStr.lean`."""
import random, sqlite3
import deps_check
from common import *
from c_deps_common import *


def rust_mtime(st):
    # Duration::as_secs_f64 followed by {:.6}
    return "%.6f" % (float(st.st_mtime_ns // 10 ** 9) + float(st.st_mtime_ns % 10 ** 9) / 1e9)


def stamp_level(ctx, rng, viol):
    from proj import Project
    thorough = ctx["tier"] == "thorough"
    stats = dict(pairs=0, override_true=0, rendered=0, kinds={})
    # (1) detect_override on pairs of stamp strings: rendered metadata with one field changed, links, the constants, junk
    def meta():
        return ["%d.%06d" % (rng.choice([0, 1, 1700000000, 1700000001]), rng.choice([0, 1, 500000, 999999])), str(rng.choice([0, 1, 5, 4096])), str(rng.randint(1, 3)),
                str(rng.choice([33188, 33261, 41471])), str(rng.choice([0, 1000])), str(rng.choice([0, 1000]))]
    def stamp():
        r = rng.random()
        if r < 0.08:
            return "0"
        if r < 0.14:
            return "dir"
        if r < 0.75:
            return "-".join(meta())
        if r < 0.9:
            return "-".join(meta()) + "+" + rng.choice(["0", "dir", "-".join(meta())])
        return rng.choice(["", "-", "--", "1-2", "1.5", "a-b-c-d", "0-0", "dir-1", "1.000000-5", "1.000000-5-", "-5-1", "0+0", "é-1-2"])
    pairs = []
    for _ in range(30000 if thorough else 3000):
        a = stamp()
        if rng.random() < 0.6 and a.count("-") >= 5:
            f = a.split("+")[0].split("-")
            k = rng.randrange(len(f))
            f[k] = rng.choice(meta())
            b = "-".join(f) + ("+" + a.split("+", 1)[1] if "+" in a and rng.random() < 0.7 else "")
        else:
            b = stamp()
        pairs.append((a, b))
    lines = ["stamp-override %s %s" % (hx(a), hx(b)) for a, b in pairs]
    diffs, m, impl = diff_lines(lines)
    stats["pairs"] = len(pairs)
    stats["override_true"] = sum(1 for x in impl if x == "true")
    if diffs:
        def is_missed(d):
            x, y = [unhx(z).decode() for z in d[0].split()[1:]]
            fx, fy = x.split("+")[0].split("-"), y.split("+")[0].split("-")
            return d[2] == "false" and len(fx) >= 6 and len(fy) >= 6 and fx[:2] != fy[:2]
        l, a, b = min([d for d in diffs if is_missed(d)] or diffs, key=lambda d: len(d[0]))
        x, y = [unhx(z).decode() for z in l.split()[1:]]
        p = write_replay("C11", "stamp-corr", dict(kind="model-vs-impl", layer="StampStr.detectOverride", recorded=x, current=y, model=a, impl=b, count=len(diffs)))
        # a failing input for the property: an edit (new mtime or size) that the implementation does not take for one
        fx, fy = x.split("+")[0].split("-"), y.split("+")[0].split("-")
        missed = b == "false" and len(fx) >= 2 and len(fy) >= 2 and fx[:2] != fy[:2]
        viol.append(Violation("C11", p, "detect_override(%r, %r): model %s, implementation %s%s" % (x, y, a, b, "; a file edited by hand (other mtime/size) is not recognised and would be overwritten" if missed else ""), no_input=not missed))
        return stats
    # (2) what a real build records for the files it looks at, against `StampStr.render` of what lstat/stat say
    pr = Project()
    try:
        os.makedirs(pr.path("d"))
        pr.write("plain", "hello\n")
        pr.write("empty", "")
        pr.write("exe", "#!/bin/sh\n")
        os.chmod(pr.path("exe"), 0o755)
        os.symlink("plain", pr.path("ln"))
        os.symlink("nowhere", pr.path("dangling"))
        os.symlink("d", pr.path("lnd"))
        os.utime(pr.path("empty"), ns=(1, 1))                       # 0.000000
        os.utime(pr.path("exe"), ns=(1700000000999999999, 1700000000999999999))   # rounds up across the second
        deps = ["plain", "empty", "exe", "ln", "dangling", "lnd", "d", "absent"]
        pr.write("t.do", "redo-ifchange %s\nredo-ifcreate absent\necho t\n" % " ".join(d for d in deps if d not in ("absent", "dangling")))
        rc, out, err = pr.run(["redo", "t"])
        pr.run(["redo-ifchange", "dangling"])        # refused (nothing there, no rule), but looked at
        db = sqlite3.connect("file:%s?mode=ro" % pr.path(".redo/db.sqlite3"), uri=True)
        rows = dict(db.execute("select name, stamp from Files"))
        db.close()
        def render(st):
            import stat as S
            if S.S_ISDIR(st.st_mode):
                return "dir"
            return run_lines(MODEL, ["stamp-render %s %d %d %d %d %d" % (rust_mtime(st), st.st_size, st.st_ino, st.st_mode, st.st_uid, st.st_gid)])[0]
        problems = []
        if rc != 0:
            problems.append("redo t failed (%d): %s" % (rc, err[-300:]))
        for d in deps + ["t", "t.do"]:
            path = pr.path(d)
            try:
                l = os.lstat(path)
            except FileNotFoundError:
                want, kind = "0", "missing"
            else:
                import stat as S
                if S.S_ISLNK(l.st_mode):
                    try:
                        want, kind = render(l) + "+" + render(os.stat(path)), "link"
                    except FileNotFoundError:
                        want, kind = render(l) + "+0", "dangling"
                else:
                    want, kind = render(l), "dir" if S.S_ISDIR(l.st_mode) else "file"
            stats["kinds"][kind] = stats["kinds"].get(kind, 0) + 1
            got = rows.get(d)
            if d == "absent" or (d == "dangling" and got is None):
                continue            # never stamped: only its absence is recorded
            stats["rendered"] += 1
            if got != want:
                problems.append("%s (%s): the database holds %r, StampStr.render of its metadata gives %r" % (d, kind, got, want))
        if problems:
            p = write_replay("C11", "stamp-render", dict(kind="model-vs-impl", layer="StampStr.render", problems=problems, rows=rows))
            viol.append(Violation("C11", p, "; ".join(problems[:2]), no_input=True))
    finally:
        pr.destroy()
    return stats


def special_files_scenario(viol):
    """Files that exist, were not produced by redo and are not regular files — a named pipe, a unix socket — at names
    that a rule matches: no redo command replaces or removes them (one rule writes $3, the other produces nothing),
    whether they are requested directly or as a dependency."""
    import socket, stat as S
    from proj import Project
    pr = Project()
    try:
        os.mkfifo(pr.path("live.log"))
        sk = socket.socket(socket.AF_UNIX)
        sk.bind(pr.path("daemon.ctl"))
        os.symlink("nowhere-yet", pr.path("dangling.log"))
        os.makedirs(pr.path("somedir"))
        pr.write("somedir/keep", "k")
        os.symlink("somedir", pr.path("dirlink.log"))
        pr.write("default.log.do", 'echo "made by the rule" >"$3"\n')
        pr.write("default.ctl.do", ":\n")
        pr.write("user.do", 'redo-ifchange live.log daemon.ctl\necho user >"$3"\n')
        names = ("live.log", "daemon.ctl", "dangling.log", "dirlink.log")
        kinds = {"live.log": "named pipe", "daemon.ctl": "unix socket", "dangling.log": "symbolic link to nothing", "dirlink.log": "symbolic link to a directory"}
        before = {n: (os.lstat(pr.path(n)).st_ino, S.S_IFMT(os.lstat(pr.path(n)).st_mode)) for n in names}
        outs = []
        for argv in (["redo-ifchange", "live.log"], ["redo", "live.log"], ["redo", "daemon.ctl"], ["redo-ifchange", "user"], ["redo", "user"],
                     ["redo-ifchange", "dangling.log"], ["redo", "dangling.log"], ["redo-ifchange", "dirlink.log"], ["redo", "dirlink.log"]):
            rc, o, e = pr.run(argv, timeout=30)
            outs.append((argv, rc, e[-300:]))
        problems = []
        for n in names:
            try:
                st = os.lstat(pr.path(n))
                now = (st.st_ino, S.S_IFMT(st.st_mode))
            except FileNotFoundError:
                now = None
            if now != before[n]:
                problems.append("%s (a %s made by the user) %s" % (n, kinds[n], "was removed" if now is None else "was replaced (inode/type %r -> %r)" % (before[n], now)))
        sk.close()
        if problems:
            p = write_replay("C11", "special-files", dict(kind="impl-monitor", problems=problems, commands=outs,
                                                          scenario="mkfifo live.log; unix socket daemon.ctl; default.log.do writes $3; default.ctl.do produces nothing; user.do: redo-ifchange live.log daemon.ctl"))
            viol.append(Violation("C11", p, "a file that exists and was not generated by redo was touched: " + "; ".join(problems)))
    finally:
        pr.destroy()


def user_directory_scenario(viol):
    """A directory the user made, with the user's files in it, at a name matched by a rule whose output is a directory
    (`mkdir "$3"`): no redo command may remove or replace it, requested directly or as a dependency, whatever status
    the command ends with."""
    from proj import Project
    pr = Project()
    try:
        os.makedirs(pr.path("docs.site"))
        pr.write("docs.site/precious.txt", "written by hand")
        os.makedirs(pr.path("empty.site"))
        pr.write("default.site.do", 'mkdir "$3"\necho generated >"$3/index.html"\n')
        pr.write("all.do", "redo-ifchange docs.site\n")
        ino = {n: os.lstat(pr.path(n)).st_ino for n in ("docs.site", "docs.site/precious.txt", "empty.site")}
        outs = []
        for argv in (["redo-ifchange", "docs.site"], ["redo", "docs.site"], ["redo", "all"], ["redo-ifchange", "all"], ["redo", "-k", "docs.site", "empty.site"]):
            rc, o, e = pr.run(argv, timeout=30)
            outs.append((argv, rc, e[-300:]))
        problems = []
        for n in ("docs.site", "docs.site/precious.txt"):
            try:
                now = os.lstat(pr.path(n)).st_ino
            except FileNotFoundError:
                now = None
            if now != ino[n]:
                problems.append("%s (made by the user) %s" % (n, "was removed" if now is None else "was replaced"))
        if os.path.exists(pr.path("docs.site/precious.txt")) and pr.read("docs.site/precious.txt") != b"written by hand":
            problems.append("docs.site/precious.txt was modified")
        if problems:
            p = write_replay("C11", "user-directory", dict(kind="impl-monitor", problems=problems, commands=outs,
                                                           scenario="mkdir docs.site; echo 'written by hand' > docs.site/precious.txt; default.site.do: mkdir \"$3\"; echo generated > \"$3/index.html\"; all.do: redo-ifchange docs.site"))
            viol.append(Violation("C11", p, "a directory that exists and was not generated by redo was touched: " + "; ".join(problems)))
    finally:
        pr.destroy()


def edit_in_start_window_scenario(viol):
    """A hand edit of a generated target that lands after redo has decided to rebuild it (the override check has read
    the old stamp) and before the script is started — the instrumented build is parked at the hook `job.script` for that
    long.  Neither that build nor any later command may replace the edited file (the property: left untouched, with a
    warning, until the user removes it).  Judged: the build under way must not install its output over the edit."""
    import subprocess, time
    from proj import Project, clean_env
    pr = Project()
    try:
        pr.write("src", "1")
        pr.write("out.do", "redo-ifchange src\necho generated-$(cat src)\n")
        rc, o, e = pr.run(["redo", "out"], timeout=30)
        if rc != 0 or pr.read("out") != b"generated-1\n":
            return
        pr.write("src", "2")
        time.sleep(0.05)
        p = subprocess.Popen(["redo-ifchange", "out"], cwd=pr.root, env=clean_env(dict(REDO_VERIF_DELAY="job.script:out=1500")), stdin=subprocess.DEVNULL,
                             stdout=subprocess.PIPE, stderr=subprocess.PIPE, start_new_session=True)
        time.sleep(0.7)                                   # redo is parked between its decision and the start of the script
        pr.write("out", "EDITED BY HAND, a good deal longer than what the script writes\n")
        try:
            o, e = p.communicate(timeout=30)
        except subprocess.TimeoutExpired:
            p.kill()
            o, e = p.communicate()
        rc1 = p.returncode
        after1 = pr.read("out") if os.path.exists(pr.path("out")) else None
        rc2, o2, e2 = pr.run(["redo-ifchange", "out"], timeout=30)
        after2 = pr.read("out") if os.path.exists(pr.path("out")) else None
        want = b"EDITED BY HAND, a good deal longer than what the script writes\n"
        # (what the NEXT command does with a file edited while its own build was under way is the documented corner
        # "reported once (206), overwritten by the next build" — DESIGN §15.2, not judged here)
        if after1 != want:
            pth = write_replay("C11", "edit-in-start-window", dict(kind="impl-monitor", clause="a generated target that the user has since edited is left untouched by every later command until the user removes it",
                                                                   rc_build=rc1, stderr_build=e.decode("utf-8", "replace")[-500:], content_after_build=repr(after1), rc_next=rc2, stderr_next=e2[-300:], content_after_next=repr(after2),
                                                                   scenario="redo out; edit src; redo-ifchange out parked 1.5 s at job.script (after the override check, before the script starts); the user overwrites out by hand in that window"))
            viol.append(Violation("C11", pth, "a hand edit made between redo's decision to rebuild and the start of the script was overwritten by that build: out holds %r after the build (exit %s)" % (after1, rc1)))
    finally:
        pr.destroy()


def run(ctx):
    viol = ctx.setdefault("violations", [])
    st = stamp_level(ctx, random.Random(ctx["seed"] * 41 + 11), viol)
    if viol:
        return dict(evaluations=st["pairs"], distinct_nontrivial=st["override_true"], rule="stamp strings", samples=[], distribution=dict(stamps=st))
    # builds killed part-way leave half-recorded rows behind; a file the user creates afterwards at such a target's path
    # is still the user's
    import c10, depsgen
    rngk = random.Random(ctx["seed"] * 59 + 11)
    killed = [c10.with_crashes(rngk, depsgen.gen_case(rngk, features=FEATURES["C11"])) for _ in range(120 if ctx["tier"] == "thorough" else 12)]
    cov = deps_check.run_property(ctx, "C11", FEATURES["C11"], NCASES["C11"], WANT["C11"], known_matcher=KNOWN.get("C11"), extra_cases=killed)
    cov["histories_with_killed_builds"] = len(killed)
    if not viol and not ctx.get("replay"):
        special_files_scenario(viol)
        if not viol:
            user_directory_scenario(viol)
        if not viol:
            edit_in_start_window_scenario(viol)
        cov["directed_scenarios"] = 3
    cov.setdefault("distribution", {})["stamps"] = st
    cov["rule"] = "stamp strings: pairs of rendered/constant/link/malformed stamps through Stamp::detect_override and StampStr.detectOverride, and the stamps a real build records for regular files, symlinks (to a file, a directory, nothing), directories against StampStr.render of lstat/stat; " + cov.get("rule", "")
    return cov
