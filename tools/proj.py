"""Scratch redo projects driven through the real (instrumented) binaries."""
import os, shutil, subprocess, tempfile
from common import BIN


def clean_env(extra=None):
    e = {k: v for k, v in os.environ.items() if not (k.startswith("REDO") or k in ("MAKEFLAGS", "MFLAGS", "MAKELEVEL", "CDPATH"))}
    e["PATH"] = BIN + ":" + e.get("PATH", "/usr/bin:/bin")
    e["LC_ALL"] = "C.UTF-8"
    if extra:
        e.update(extra)
    return e


class Project:
    def __init__(self, prefix="redo-verif-"):
        self.root = os.path.realpath(tempfile.mkdtemp(prefix=prefix))

    def path(self, *p):
        return os.path.join(self.root, *p)

    def write(self, rel, data, mode=None):
        p = self.path(rel)
        os.makedirs(os.path.dirname(p), exist_ok=True)
        # always through a new inode so that stamps change
        tmp = p + ".verif-new"
        with open(tmp, "w" if isinstance(data, str) else "wb") as f:
            f.write(data)
        if mode is not None:
            os.chmod(tmp, mode)
        os.replace(tmp, p)

    def read(self, rel):
        try:
            with open(self.path(rel), "rb") as f:
                return f.read()
        except (FileNotFoundError, IsADirectoryError, NotADirectoryError):
            return None

    def rm(self, rel):
        try:
            os.unlink(self.path(rel))
        except FileNotFoundError:
            pass

    def run(self, argv, cwd=".", env=None, timeout=60, stdin=None):
        # own session: a scenario may kill its whole process group, and a timeout must not leave strays
        import os, signal
        p = subprocess.Popen(argv, cwd=self.path(cwd), env=clean_env(env), stdout=subprocess.PIPE, stderr=subprocess.PIPE,
                             stdin=subprocess.DEVNULL if stdin is None else stdin, start_new_session=True)
        try:
            out, err = p.communicate(timeout=timeout)
            rc = p.returncode
        except subprocess.TimeoutExpired:
            try:
                os.killpg(p.pid, signal.SIGKILL)
            except ProcessLookupError:
                pass
            out, err = p.communicate()
            rc = -999
        try:
            os.killpg(p.pid, signal.SIGKILL)      # orphans of a killed tree
        except (ProcessLookupError, PermissionError):
            pass
        return rc, out.decode("utf-8", "replace"), err.decode("utf-8", "replace")

    def destroy(self):
        shutil.rmtree(self.root, ignore_errors=True)
