"""Scratch redo projects driven through the real (instrumented) binaries."""
import os, shutil, subprocess, tempfile
from common import BIN


def clean_env(extra=None):
    e = {k: v for k, v in os.environ.items() if not (k.startswith("REDO") or k in ("MAKEFLAGS", "MFLAGS", "MAKELEVEL", "CDPATH"))}
    e["PATH"] = BIN + ":" + e.get("PATH", "/usr/bin:/bin")
    e["LC_ALL"] = "C.UTF-8"
    if extra:
        e.update(extra)
    return e


class Project:
    def __init__(self, prefix="redo-verif-"):
        self.root = os.path.realpath(tempfile.mkdtemp(prefix=prefix))

    def path(self, *p):
        return os.path.join(self.root, *p)

    def write(self, rel, data, mode=None):
        p = self.path(rel)
        os.makedirs(os.path.dirname(p), exist_ok=True)
        # always through a new inode so that stamps change
        tmp = p + ".verif-new"
        with open(tmp, "w" if isinstance(data, str) else "wb") as f:
            f.write(data)
        if mode is not None:
            os.chmod(tmp, mode)
        os.replace(tmp, p)

    def read(self, rel):
        try:
            with open(self.path(rel), "rb") as f:
                return f.read()
        except (FileNotFoundError, IsADirectoryError, NotADirectoryError):
            return None

    def rm(self, rel):
        try:
            os.unlink(self.path(rel))
        except FileNotFoundError:
            pass

    def run(self, argv, cwd=".", env=None, timeout=60, stdin=None):
        try:
            r = subprocess.run(argv, cwd=self.path(cwd), env=clean_env(env), stdout=subprocess.PIPE, stderr=subprocess.PIPE,
                               timeout=timeout, stdin=subprocess.DEVNULL if stdin is None else stdin)
            return r.returncode, r.stdout.decode("utf-8", "replace"), r.stderr.decode("utf-8", "replace")
        except subprocess.TimeoutExpired as e:
            return -999, (e.stdout or b"").decode("utf-8", "replace"), (e.stderr or b"").decode("utf-8", "replace")

    def destroy(self):
        shutil.rmtree(self.root, ignore_errors=True)
