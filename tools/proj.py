"""Scratch redo projects driven through the real (instrumented) binaries."""
import os, shutil, subprocess, tempfile
from common import BIN


def clean_env(extra=None):
    e = {k: v for k, v in os.environ.items() if not (k.startswith("REDO") or k in ("MAKEFLAGS", "MFLAGS", "MAKELEVEL", "CDPATH"))}
    e["PATH"] = BIN + ":" + e.get("PATH", "/usr/bin:/bin")
    e["LC_ALL"] = "C.UTF-8"
    if extra:
        e.update(extra)
    return e


def kill_orphans(pgid):
    """Kill what is left of a scenario's process group AFTER its leader has been reaped.  The group id is the leader's pid,
    and a pid is free for reuse as soon as no process carries it as pid, group or session id: a blind `killpg` here could hit
    a stranger that was given the same number meanwhile (another check running beside this one; this machine wraps pids at
    32768 and the scenarios start thousands of processes a minute).  While orphans of ours exist the number is NOT free, so:
    if a process with that pid exists now it is a stranger and we have no orphans — do nothing; otherwise every process in
    that group and session is ours."""
    import signal
    if os.path.exists("/proc/%d" % pgid):
        return
    for pid in os.listdir("/proc"):
        if not pid.isdigit():
            continue
        try:
            st = open("/proc/%s/stat" % pid).read()
            f = st[st.rindex(")") + 2:].split()
            pgrp, sid = int(f[2]), int(f[3])
        except (OSError, ValueError, IndexError):
            continue
        if pgrp == pgid and sid == pgid:
            try:
                os.kill(int(pid), signal.SIGKILL)
            except (ProcessLookupError, PermissionError):
                pass


STRAY_REMOVED = []


def remove_stray_databases(root):
    """redo looks for `.redo` from a project's directory UPWARDS: a `.redo` left in the temporary directory or in `/` (by
    an earlier run of a changed redo whose base discovery went astray, or by somebody's experiment run from there)
    captures every scratch project created below it — all scenarios would then share one database and one lock file.
    Nobody keeps a project database in those places: such a directory is debris; it is removed and the fact is reported in
    the evidence."""
    d = os.path.dirname(root)
    while True:
        stray = os.path.join(d, ".redo")
        if os.path.lexists(stray):
            shutil.rmtree(stray, ignore_errors=True)
            if os.path.lexists(stray):
                try:
                    os.unlink(stray)
                except OSError:
                    pass
            if stray not in STRAY_REMOVED:
                STRAY_REMOVED.append(stray)
        if d == "/" or not d:
            break
        d = os.path.dirname(d)


class Project:
    def __init__(self, prefix="redo-verif-"):
        self.root = os.path.realpath(tempfile.mkdtemp(prefix=prefix))
        remove_stray_databases(self.root)

    def path(self, *p):
        return os.path.join(self.root, *p)

    def write(self, rel, data, mode=None):
        p = self.path(rel)
        os.makedirs(os.path.dirname(p), exist_ok=True)
        # always through a new inode so that stamps change
        tmp = p + ".verif-new"
        with open(tmp, "w" if isinstance(data, str) else "wb") as f:
            f.write(data)
        if mode is not None:
            os.chmod(tmp, mode)
        os.replace(tmp, p)

    def read(self, rel):
        try:
            with open(self.path(rel), "rb") as f:
                return f.read()
        except (FileNotFoundError, IsADirectoryError, NotADirectoryError):
            return None

    def rm(self, rel):
        try:
            os.unlink(self.path(rel))
        except FileNotFoundError:
            pass

    def run(self, argv, cwd=".", env=None, timeout=60, stdin=None):
        # own session: a scenario may kill its whole process group, and a timeout must not leave strays
        import os, signal
        p = subprocess.Popen(argv, cwd=self.path(cwd), env=clean_env(env), stdout=subprocess.PIPE, stderr=subprocess.PIPE,
                             stdin=subprocess.DEVNULL if stdin is None else stdin, start_new_session=True)
        try:
            out, err = p.communicate(timeout=timeout)
            rc = p.returncode
        except subprocess.TimeoutExpired:
            try:
                os.killpg(p.pid, signal.SIGKILL)
            except ProcessLookupError:
                pass
            out, err = p.communicate()
            rc = -999
        kill_orphans(p.pid)                       # orphans of a killed tree
        return rc, out.decode("utf-8", "replace"), err.decode("utf-8", "replace")

    def destroy(self):
        shutil.rmtree(self.root, ignore_errors=True)
