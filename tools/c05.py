"""C05 — decided on the serial dependency engine; see deps_check.py (shared body) and DESIGN §7."""
import deps_check
from c_deps_common import *

def run(ctx):
    return deps_check.run_property(ctx, "C05", FEATURES["C05"], NCASES["C05"], WANT["C05"], known_matcher=KNOWN.get("C05"))
