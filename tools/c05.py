"""C05 — decided on the serial dependency engine; see deps_check.py (shared body) and DESIGN §7.  Plus one directed
scenario outside the script DSL: a plain `redo` called from a script under a `redo --keep-going` run."""
import deps_check
from c_deps_common import *
from common import *
from proj import Project


def nested_redo_keep_going(viol):
    """`redo --keep-going all`; all.do: redo-ifchange reports other; reports.do: `redo part-a part-b part-c`; part-a
    fails.  With --keep-going every requested target that does not depend on a failed one is still built: part-b,
    part-c and other; the command exits non-zero; part-a ran once."""
    pr = Project()
    try:
        pr.write("all.do", "redo-ifchange reports other\n")
        pr.write("reports.do", "redo part-a part-b part-c\ncat part-a part-b part-c\n")
        pr.write("part-a.do", "echo ran >>part-a.runs\nexit 1\n")
        pr.write("part-b.do", "echo b\n")
        pr.write("part-c.do", "echo c\n")
        pr.write("other.do", "echo other\n")
        rc, out, err = pr.run(["redo", "--keep-going", "all"], timeout=60)
        runs = len((pr.read("part-a.runs") or b"").split())
        missing = [t for t in ("part-b", "part-c", "other") if pr.read(t) is None]
        problems = []
        if rc == 0:
            problems.append("exit status 0 although part-a failed")
        if missing:
            problems.append("not built although independent of the failed target: %s" % ", ".join(missing))
        if runs != 1:
            problems.append("part-a.do ran %d times" % runs)
        if problems:
            p = write_replay("C05", "nested-redo-k", dict(kind="impl-monitor", problems=problems, rc=rc, stderr=err[-1500:],
                                                          scenario="redo --keep-going all; all.do: redo-ifchange reports other; reports.do: redo part-a part-b part-c; part-a.do exits 1"))
            viol.append(Violation("C05", p, "plain `redo` inside a script of a --keep-going run: " + "; ".join(problems)))
    finally:
        pr.destroy()


def run(ctx):
    cov = deps_check.run_property(ctx, "C05", FEATURES["C05"], NCASES["C05"], WANT["C05"], known_matcher=KNOWN.get("C05"))
    viol = ctx.setdefault("violations", [])
    if not viol and not ctx.get("replay"):
        nested_redo_keep_going(viol)
        cov["directed_scenarios"] = 1
    return cov
