"""C05 — decided on the serial dependency engine; see deps_check.py (shared body) and DESIGN §7.  Plus one directed
scenario outside the script DSL: a plain `redo` called from a script under a `redo --keep-going` run."""
import deps_check
from c_deps_common import *
from common import *
from proj import Project


def nested_redo_keep_going(viol):
    """`redo --keep-going all`; all.do: redo-ifchange reports other; reports.do: `redo part-a part-b part-c`; part-a
    fails.  With --keep-going every requested target that does not depend on a failed one is still built: part-b,
    part-c and other; the command exits non-zero; part-a ran once."""
    pr = Project()
    try:
        pr.write("all.do", "redo-ifchange reports other\n")
        pr.write("reports.do", "redo part-a part-b part-c\ncat part-a part-b part-c\n")
        pr.write("part-a.do", "echo ran >>part-a.runs\nexit 1\n")
        pr.write("part-b.do", "echo b\n")
        pr.write("part-c.do", "echo c\n")
        pr.write("other.do", "echo other\n")
        rc, out, err = pr.run(["redo", "--keep-going", "all"], timeout=60)
        runs = len((pr.read("part-a.runs") or b"").split())
        missing = [t for t in ("part-b", "part-c", "other") if pr.read(t) is None]
        problems = []
        if rc == 0:
            problems.append("exit status 0 although part-a failed")
        if missing:
            problems.append("not built although independent of the failed target: %s" % ", ".join(missing))
        if runs != 1:
            problems.append("part-a.do ran %d times" % runs)
        if problems:
            p = write_replay("C05", "nested-redo-k", dict(kind="impl-monitor", problems=problems, rc=rc, stderr=err[-1500:],
                                                          scenario="redo --keep-going all; all.do: redo-ifchange reports other; reports.do: redo part-a part-b part-c; part-a.do exits 1"))
            viol.append(Violation("C05", p, "plain `redo` inside a script of a --keep-going run: " + "; ".join(problems)))
    finally:
        pr.destroy()


def forced_twice_scenario(viol):
    """Two scripts of one run both force the same target (`redo T`, not redo-ifchange) and T fails while the second one
    is waiting for T's lock: the failed target is not executed a second time in the same run, both requesters fail, the
    top-level command exits non-zero — at -j3 and, for comparison, serially."""
    import time
    for j in ("-j3", "-j1"):
        pr = Project()
        try:
            # T.do fails only after B has announced its own request (bounded wait: at -j1 B cannot run meanwhile)
            pr.write("T.do", "echo ran >>T.runs\n: >T.started\ni=0; while [ ! -e B.ready ] && [ $i -lt 40 ]; do sleep 0.05; i=$((i+1)); done\nsleep 1.5\nexit 3\n")
            pr.write("A.do", "redo T\necho A\n")
            pr.write("B.do", "while [ ! -e T.started ]; do sleep 0.05; done\n: >B.ready\nredo T\necho B\n")
            pr.write("all.do", "redo-ifchange A B\n")
            rc, out, err = pr.run(["redo", j, "all"], timeout=60)
            runs = len((pr.read("T.runs") or b"").split())
            problems = []
            if rc == 0:
                problems.append("exit status 0 although T failed")
            if j != "-j1" and runs != 1:
                problems.append("T.do ran %d times in one run" % runs)
            if pr.read("A") is not None or pr.read("B") is not None:
                problems.append("a requester of the failed target was built: A %s, B %s" % (pr.read("A") is not None, pr.read("B") is not None))
            if problems:
                p = write_replay("C05", "forced-twice", dict(kind="impl-monitor", problems=problems, rc=rc, j=j, stderr=err[-1500:],
                                                             scenario="redo %s all; all.do: redo-ifchange A B; A.do: redo T; B.do: (wait until T.do runs) redo T; T.do: sleep 1.2; exit 3" % j))
                viol.append(Violation("C05", p, "a failing target forced by two scripts of one run (%s): " % j + "; ".join(problems)))
                return
        finally:
            pr.destroy()


def runloop_level(ctx, viol):
    """The stop / keep-going rule at -j>1 on the real scheduler: generated graphs with failing scripts, built with and
    without -k at -j1..4 (sometimes beside a second invocation, so that the second loop over locked targets runs).
    Every process's builder::run is replayed through the RunLoop acceptor (Props/C05c: no new target is started after
    a failure is known without -k; with -k every announced target gets a decision; exit status = result cell).
    Independently of the hooks, for serial builds without -k the scripts' own begin/end records must show no script
    beginning after the first failing script ended; and a build whose needed scripts fail must not exit 0."""
    import random, sched
    rng = random.Random(ctx["seed"] * 131 + 5)
    stats = dict(builds=0, failing_builds=0, keep_going=0, runloop_processes=0)
    n = 10 if ctx["tier"] == "thorough" else 4
    for i in range(n):
        pr = Project()
        try:
            g = sched.gen_graph(rng, rng.randint(4, 9))
            for nm in g:
                g[nm]["fail"] = rng.random() < 0.25
                g[nm]["dur"] = rng.choice([0, 20, 60, 120])
            sched.write_project(pr, g)
            kg = rng.random() < 0.5
            cmds = [["redo", "-j%d" % rng.randint(1, 4)] + (["-k"] if kg else []) + ["all"]]
            if rng.random() < 0.5:
                cmds.append(["redo-ifchange"] + rng.sample(sorted(g), min(2, len(g))))
            rs = sched.run_cmds(pr, cmds, timeout=90, stagger=0.02)
            stats["builds"] += 1
            stats["keep_going"] += 1 if kg else 0
            stats["failing_builds"] += 1 if rs[0].rc != 0 else 0
            scen = dict(graph={a: d["deps"] for a, d in g.items()}, failing=[a for a, d in g.items() if d["fail"]], commands=cmds)
            if any(r.timed_out for r in rs):
                continue                                   # hangs are C09's subject
            if not sched.runloop_check("C05", "par-%d" % i, rs[0].trace, viol, stats, scen):
                return stats
            failing = set(scen["failing"])
            ends = sorted(ts for k, pid, nm, ts in rs[0].work if k == "E" and nm in failing)
            if ends and rs[0].rc == 0:
                p = write_replay("C05", "par-status-%d" % i, dict(kind="impl-monitor", scenario=scen, rc=rs[0].rc, stderr=rs[0].err[-1500:]))
                viol.append(Violation("C05", p, "`%s` exited 0 although the script of a needed target failed (%s)" % (" ".join(cmds[0]), sorted(failing))))
                return stats
            if ends and not kg and len(cmds) == 1 and "-j1" in cmds[0]:
                late = sorted(nm for k, pid, nm, ts in rs[0].work if k == "B" and ts > ends[0])
                stats["serial_stop_checked"] = stats.get("serial_stop_checked", 0) + 1
                if late:
                    p = write_replay("C05", "serial-stop-%d" % i, dict(kind="impl-monitor", scenario=scen, started_after_failure=late, work=rs[0].work[:200]))
                    viol.append(Violation("C05", p, "`%s` (no -k): scripts of %s began after the first failure was known" % (" ".join(cmds[0]), late)))
                    return stats
        finally:
            pr.destroy()
    return stats


def run(ctx):
    cov = deps_check.run_property(ctx, "C05", FEATURES["C05"], NCASES["C05"], WANT["C05"], known_matcher=KNOWN.get("C05"))
    viol = ctx.setdefault("violations", [])
    if not viol and not ctx.get("replay"):
        nested_redo_keep_going(viol)
        if not viol:
            forced_twice_scenario(viol)
        cov["directed_scenarios"] = 2
    if not viol and not ctx.get("replay"):
        cov.setdefault("distribution", {})["runloop_level"] = runloop_level(ctx, viol)
    return cov
