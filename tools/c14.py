"""C14 — decided on the serial dependency engine; see deps_check.py (shared body) and DESIGN §7.  Plus directed
scenarios outside the script DSL: redo-ifcreate after `cd`, and redo-always beside a second top-level run."""
import deps_check
from c_deps_common import *
from common import *
from proj import Project, clean_env


def ifcreate_after_cd(viol):
    """`redo-ifcreate` names paths relative to where the script IS, not where it started: after `cd sub`, declaring an
    existing sub/present is an error; declaring the absent sub/only_top (./only_top exists) is accepted, and the
    target is rebuilt when sub/only_top appears — not before."""
    pr = Project()
    try:
        import os as _os
        _os.makedirs(pr.path("sub"))
        pr.write("sub/present", "x")
        pr.write("only_top", "x")
        pr.write("t.do", "cd sub\nredo-ifcreate present\necho t\n")
        pr.write("w.do", "echo ran >>w.runs\ncd sub\nredo-ifcreate only_top\necho w\n")
        problems = []
        rc, o, e = pr.run(["redo-ifchange", "t"])
        if rc == 0:
            problems.append("declaring redo-ifcreate for the existing sub/present (after cd sub) was accepted")
        rc, o, e = pr.run(["redo-ifchange", "w"])
        if rc != 0:
            problems.append("redo-ifcreate of the absent sub/only_top (after cd sub) was refused (exit %d)" % rc)
        rc, o, e = pr.run(["redo-ifchange", "w"])
        n1 = len((pr.read("w.runs") or b"").split())
        pr.write("sub/only_top", "now")
        rc, o, e = pr.run(["redo-ifchange", "w"])
        n2 = len((pr.read("w.runs") or b"").split())
        if n1 != 1:
            problems.append("w was rebuilt before the watched path appeared (%d runs)" % n1)
        if n2 != 2:
            problems.append("w.do was not run again after sub/only_top appeared (%d runs)" % n2)
        if problems:
            p = write_replay("C14", "ifcreate-cd", dict(kind="impl-monitor", problems=problems, stderr=e[-800:], scenario="t.do: cd sub; redo-ifcreate present (exists).  w.do: cd sub; redo-ifcreate only_top (absent there, present in the top directory)"))
            viol.append(Violation("C14", p, "redo-ifcreate after `cd`: " + "; ".join(problems)))
    finally:
        pr.destroy()


def always_beside_other_run(viol):
    """Run A (`redo-ifchange P1 P2`, both need the redo-always target T; P1.do first waits for a flag file) is started,
    run B (`redo-ifchange U`, U another redo-always target) runs from start to finish meanwhile, then A is released:
    T is built exactly once in A."""
    import subprocess, time as _t
    pr = Project()
    try:
        pr.write("T.do", "redo-always\necho ran >>T.log\necho T\n")
        pr.write("U.do", "redo-always\necho U\n")
        pr.write("P1.do", "while [ ! -e go ]; do sleep 0.05; done\nredo-ifchange T\necho P1\n")
        pr.write("P2.do", "redo-ifchange T\necho P2\n")
        a = subprocess.Popen(["redo-ifchange", "P1", "P2"], cwd=pr.root, env=clean_env(), stdout=subprocess.DEVNULL, stderr=subprocess.PIPE, stdin=subprocess.DEVNULL, start_new_session=True)
        _t.sleep(0.5)
        rcb, o, e = pr.run(["redo-ifchange", "U"], timeout=30)
        pr.write("go", "")
        try:
            _, erra = a.communicate(timeout=40)
            rca = a.returncode
        except subprocess.TimeoutExpired:
            import signal, os as _os
            _os.killpg(a.pid, signal.SIGKILL)
            rca, erra = -999, b""
        runs = len((pr.read("T.log") or b"").split())
        if rca != 0 or rcb != 0 or runs != 1:
            p = write_replay("C14", "always-two-runs", dict(kind="impl-monitor", rc_a=rca, rc_b=rcb, T_runs=runs, stderr=erra.decode("utf-8", "replace")[-800:],
                                                            scenario="A: redo-ifchange P1 P2 (both redo-ifchange T; T.do: redo-always), B: redo-ifchange U (redo-always) while A waits"))
            viol.append(Violation("C14", p, "the redo-always target T was built %d time(s) in one top-level run (statuses A=%s B=%s) while another run used redo-always in between" % (runs, rca, rcb)))
    finally:
        pr.destroy()


def killed_before_declaring(viol):
    """A rebuild of a redo-always target, and one triggered by a watched path that appeared, are killed (whole tree)
    before the script has declared anything again.  The old declarations are still what is known about the target: the
    next redo-ifchange runs it — the always target in every later run, the other one because its watched path exists."""
    import subprocess, signal, time as _t, os as _os
    pr = Project()
    try:
        pr.write("a.do", 'echo ran >>a.runs\nif [ -e slow ]; then touch a.started; sleep 20; fi\nredo-always\necho a\n')
        pr.write("w.do", 'echo ran >>w.runs\nif [ -e slow ]; then touch w.started; sleep 20; fi\nif [ -e F ]; then redo-ifchange F; else redo-ifcreate F; fi\necho w\n')
        rc0, o, e = pr.run(["redo-ifchange", "a", "w"], timeout=30)
        pr.write("F", "now\n")
        pr.write("slow", "")
        problems = []
        for t in ("a", "w"):
            p = subprocess.Popen(["redo-ifchange", t], cwd=pr.root, env=clean_env(), stdout=subprocess.DEVNULL, stderr=subprocess.DEVNULL, stdin=subprocess.DEVNULL, start_new_session=True)
            for _ in range(100):
                if _os.path.exists(pr.path(t + ".started")):
                    break
                _t.sleep(0.05)
            else:
                problems.append("%s.do did not start" % t)
            try:
                _os.killpg(p.pid, signal.SIGKILL)
            except ProcessLookupError:
                pass
            p.wait()
        pr.rm("slow")
        _t.sleep(0.2)
        before = {t: len((pr.read(t + ".runs") or b"").split()) for t in ("a", "w")}
        rcs = [pr.run(["redo-ifchange", "a", "w"], timeout=30)[0], pr.run(["redo-ifchange", "a", "w"], timeout=30)[0]]
        after = {t: len((pr.read(t + ".runs") or b"").split()) for t in ("a", "w")}
        if any(rcs) or rc0 != 0:
            problems.append("exit statuses %r" % ([rc0] + rcs))
        if after["a"] - before["a"] != 2:
            problems.append("the redo-always target a was executed %d time(s) by the two runs after its rebuild was killed (expected once per run)" % (after["a"] - before["a"]))
        if after["w"] - before["w"] != 1:
            problems.append("w (declared redo-ifcreate F; F appeared; the rebuild was killed before it declared anything) was executed %d time(s) by the runs after the kill (expected exactly once)" % (after["w"] - before["w"]))
        if problems:
            p = write_replay("C14", "killed-before-declaring", dict(kind="impl-monitor", problems=problems, runs_before=before, runs_after=after,
                                                                   scenario="a.do: [sleep if slow]; redo-always.  w.do: [sleep if slow]; redo-ifcreate F (or redo-ifchange F when it exists).  build both; create F; rebuild each with `slow` present and kill the whole tree while the script sleeps; then redo-ifchange a w twice"))
            viol.append(Violation("C14", p, "after a rebuild killed before the script declared anything: " + "; ".join(problems)))
    finally:
        pr.destroy()


def ifcreate_unusual_names(viol):
    """The two sides of redo-ifcreate — the declaration (refused when the path exists) and the later check ("has it come
    into existence?") — must mean the same by "exists", also for names that are not plain: a symbolic link whose
    destination is not there yet (an optional `local.conf -> site/local.conf`), a path below something that is not a
    directory, a path in a directory that does not exist yet.  For each: the declaration is accepted, two further
    checks rebuild nothing, intermediate steps that do not bring the path into existence rebuild nothing, and the step
    that does rebuilds the target once."""
    import os as _os
    script = 'echo ran >>"$2.runs"\nif [ -e "%s" ]; then redo-ifchange "%s"; else redo-ifcreate "%s"; fi\necho "$2"\n'
    cases = [
        ("link", "opt.conf", "a symbolic link whose destination does not exist yet",
         lambda pr: _os.symlink("site/opt.conf", pr.path("opt.conf")),
         [("the directory of the destination is made (the destination still is not there)", lambda pr: _os.makedirs(pr.path("site")), False),
          ("the destination is created", lambda pr: pr.write("site/opt.conf", "x"), True)]),
        ("below-file", "plain/x", "a path below a regular file",
         lambda pr: pr.write("plain", "i am a file"),
         [("the file is rewritten", lambda pr: pr.write("plain", "still a file"), False),
          ("the file is replaced by a directory holding the path", lambda pr: (pr.rm("plain"), pr.write("plain/x", "x")), True)]),
        ("missing-dir", "later/x", "a path in a directory that does not exist yet",
         lambda pr: None,
         [("the directory is made (empty)", lambda pr: _os.makedirs(pr.path("later")), False),
          ("a different file is created in it", lambda pr: pr.write("later/y", "y"), False),
          ("the path is created", lambda pr: pr.write("later/x", "x"), True)]),
    ]
    for t, watched, what, setup, steps in cases:
        pr = Project()
        try:
            setup(pr)
            pr.write(t + ".do", script % (watched, watched, watched))
            problems = []
            rc, o, e = pr.run(["redo-ifchange", t])
            if rc != 0:
                problems.append("declaring redo-ifcreate for %s was refused (exit %d: %s)" % (what, rc, (e.strip().splitlines() or [""])[-1][:120]))
            runs = lambda: len((pr.read(t + ".runs") or b"").split())
            n = runs()
            for k in range(2):
                rc, o, e = pr.run(["redo-ifchange", t])
                if not problems and (rc != 0 or runs() != n):
                    problems.append("check %d after the declaration: exit %d, the script has run %d time(s) (expected %d: %s has not come into existence)" % (k + 1, rc, runs(), n, what))
            for desc, act, appears in steps:
                act(pr)
                rc, o, e = pr.run(["redo-ifchange", t])
                want = n + 1 if appears else n
                if not problems and (rc != 0 or runs() != want):
                    problems.append("after %s: exit %d, the script has run %d time(s), expected %d" % (desc, rc, runs(), want))
                n = want
            rc, o, e = pr.run(["redo-ifchange", t])
            if not problems and (rc != 0 or runs() != n):
                problems.append("a further check with nothing changed: exit %d, %d runs, expected %d" % (rc, runs(), n))
            if problems:
                p = write_replay("C14", "ifcreate-" + t, dict(kind="impl-monitor", watched=watched, what=what, problems=problems, stderr=e[-600:], script=script % (watched, watched, watched)))
                viol.append(Violation("C14", p, "redo-ifcreate of %s (%s): %s" % (watched, what, "; ".join(problems[:2]))))
                return
        finally:
            pr.destroy()


def run(ctx):
    # a rebuild triggered by a watched path that appeared, or of a redo-always target, may be killed part-way: the old
    # rows (flagged for deletion until the script re-declares them) must stay in force, or the target is never rebuilt again
    import random, c10, depsgen
    rng = random.Random(ctx["seed"] * 53 + 14)
    killed = [c10.with_crashes(rng, depsgen.gen_case(rng, features=FEATURES["C14"])) for _ in range(120 if ctx["tier"] == "thorough" else 15)]
    cov = deps_check.run_property(ctx, "C14", FEATURES["C14"], NCASES["C14"], WANT["C14"] | {"C01"}, known_matcher=c10.kill_window_matcher("C14"), extra_cases=killed)
    cov["histories_with_killed_builds"] = len(killed)
    viol = ctx.setdefault("violations", [])
    if not viol and not ctx.get("replay"):
        killed_before_declaring(viol)
    if not viol and not ctx.get("replay"):
        ifcreate_after_cd(viol)
    if not viol and not ctx.get("replay"):
        always_beside_other_run(viol)
        cov["directed_scenarios"] = 2
    if not viol and not ctx.get("replay"):
        ifcreate_unusual_names(viol)
        cov["directed_scenarios"] = 3
    return cov
