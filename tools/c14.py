"""C14 — decided on the serial dependency engine; see deps_check.py (shared body) and DESIGN §7."""
import deps_check
from c_deps_common import *

def run(ctx):
    return deps_check.run_property(ctx, "C14", FEATURES["C14"], NCASES["C14"], WANT["C14"], known_matcher=KNOWN.get("C14"))
