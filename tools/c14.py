"""C14 — decided on the serial dependency engine; see deps_check.py (shared body) and DESIGN §7.  Plus directed
scenarios outside the script DSL: redo-ifcreate after `cd`, and redo-always beside a second top-level run."""
import deps_check
from c_deps_common import *
from common import *
from proj import Project, clean_env


def ifcreate_after_cd(viol):
    """`redo-ifcreate` names paths relative to where the script IS, not where it started: after `cd sub`, declaring an
    existing sub/present is an error; declaring the absent sub/only_top (./only_top exists) is accepted, and the
    target is rebuilt when sub/only_top appears — not before."""
    pr = Project()
    try:
        import os as _os
        _os.makedirs(pr.path("sub"))
        pr.write("sub/present", "x")
        pr.write("only_top", "x")
        pr.write("t.do", "cd sub\nredo-ifcreate present\necho t\n")
        pr.write("w.do", "echo ran >>w.runs\ncd sub\nredo-ifcreate only_top\necho w\n")
        problems = []
        rc, o, e = pr.run(["redo-ifchange", "t"])
        if rc == 0:
            problems.append("declaring redo-ifcreate for the existing sub/present (after cd sub) was accepted")
        rc, o, e = pr.run(["redo-ifchange", "w"])
        if rc != 0:
            problems.append("redo-ifcreate of the absent sub/only_top (after cd sub) was refused (exit %d)" % rc)
        rc, o, e = pr.run(["redo-ifchange", "w"])
        n1 = len((pr.read("w.runs") or b"").split())
        pr.write("sub/only_top", "now")
        rc, o, e = pr.run(["redo-ifchange", "w"])
        n2 = len((pr.read("w.runs") or b"").split())
        if n1 != 1:
            problems.append("w was rebuilt before the watched path appeared (%d runs)" % n1)
        if n2 != 2:
            problems.append("w.do was not run again after sub/only_top appeared (%d runs)" % n2)
        if problems:
            p = write_replay("C14", "ifcreate-cd", dict(kind="impl-monitor", problems=problems, stderr=e[-800:], scenario="t.do: cd sub; redo-ifcreate present (exists).  w.do: cd sub; redo-ifcreate only_top (absent there, present in the top directory)"))
            viol.append(Violation("C14", p, "redo-ifcreate after `cd`: " + "; ".join(problems)))
    finally:
        pr.destroy()


def always_beside_other_run(viol):
    """Run A (`redo-ifchange P1 P2`, both need the redo-always target T; P1.do first waits for a flag file) is started,
    run B (`redo-ifchange U`, U another redo-always target) runs from start to finish meanwhile, then A is released:
    T is built exactly once in A."""
    import subprocess, time as _t
    pr = Project()
    try:
        pr.write("T.do", "redo-always\necho ran >>T.log\necho T\n")
        pr.write("U.do", "redo-always\necho U\n")
        pr.write("P1.do", "while [ ! -e go ]; do sleep 0.05; done\nredo-ifchange T\necho P1\n")
        pr.write("P2.do", "redo-ifchange T\necho P2\n")
        a = subprocess.Popen(["redo-ifchange", "P1", "P2"], cwd=pr.root, env=clean_env(), stdout=subprocess.DEVNULL, stderr=subprocess.PIPE, stdin=subprocess.DEVNULL, start_new_session=True)
        _t.sleep(0.5)
        rcb, o, e = pr.run(["redo-ifchange", "U"], timeout=30)
        pr.write("go", "")
        try:
            _, erra = a.communicate(timeout=40)
            rca = a.returncode
        except subprocess.TimeoutExpired:
            import signal, os as _os
            _os.killpg(a.pid, signal.SIGKILL)
            rca, erra = -999, b""
        runs = len((pr.read("T.log") or b"").split())
        if rca != 0 or rcb != 0 or runs != 1:
            p = write_replay("C14", "always-two-runs", dict(kind="impl-monitor", rc_a=rca, rc_b=rcb, T_runs=runs, stderr=erra.decode("utf-8", "replace")[-800:],
                                                            scenario="A: redo-ifchange P1 P2 (both redo-ifchange T; T.do: redo-always), B: redo-ifchange U (redo-always) while A waits"))
            viol.append(Violation("C14", p, "the redo-always target T was built %d time(s) in one top-level run (statuses A=%s B=%s) while another run used redo-always in between" % (runs, rca, rcb)))
    finally:
        pr.destroy()


def run(ctx):
    cov = deps_check.run_property(ctx, "C14", FEATURES["C14"], NCASES["C14"], WANT["C14"], known_matcher=KNOWN.get("C14"))
    viol = ctx.setdefault("violations", [])
    if not viol and not ctx.get("replay"):
        ifcreate_after_cd(viol)
    if not viol and not ctx.get("replay"):
        always_beside_other_run(viol)
        cov["directed_scenarios"] = 2
    return cov
