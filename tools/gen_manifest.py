#!/usr/bin/env python3
"""Regenerate MANIFEST.json from tools/manifest_data.py (claimed properties) + properties.jsonl."""
import json, os, sys
sys.path.insert(0, os.path.dirname(os.path.abspath(__file__)))
from manifest_data import CLAIMS, HOOK_COMMITS, NOT_APPLICABLE
V = os.path.dirname(os.path.dirname(os.path.abspath(__file__)))
ids = [json.loads(l)["id"] for l in open(os.path.join(V, "properties.jsonl"))]
checks = []
for pid in ids:
    if pid in CLAIMS:
        c = CLAIMS[pid]
        checks.append(dict(property_id=pid, quick_cmd="./check %s --tier quick" % pid, thorough_cmd="./check %s --tier thorough" % pid,
                           evidence_file="/verif/evidence/%s.json" % pid, replay_cmd_template="./check %s --replay {path}" % pid,
                           engine="lean-model+correspondence",
                           level_claimed=dict(category="proof", text=c["text"], design_ref=c["design_ref"]),
                           level_note=c["note"], technique=c["technique"]))
na = [dict(property_id=p, reason=NOT_APPLICABLE.get(p, "check not built yet (work in progress; see DESIGN.md §7 for the plan)")) for p in ids if p not in CLAIMS]
m = dict(version=1, setup_cmd="./check --setup",
         hooks=dict(guard="cargo feature `verif`", enable="cargo build --features verif (harness/Cargo.toml depends on redo with features=[\"verif\"]; the instrumented binary is built into /verif/build/target)",
                    baseline_off_cmd="cd /repo && cargo test --workspace --no-fail-fast --offline", source_commits=HOOK_COMMITS, add_only=True),
         engines=[dict(name="lean-model+correspondence", path="/verif/lean, /verif/harness, /verif/tools", serves_properties=sorted(CLAIMS),
                       kind_free_text="Lean 4 theorems about hand-written executable models; models tied to /repo on every run by differential/trace correspondence (rh harness, instrumented redo)")],
         checks=checks, not_applicable=na,
         notes="Every check: rebuilds harness+instrumented redo from /repo, regenerates Generated.lean from the sources, kernel-checks and axiom-audits Props.<id>, runs the correspondence for the layer(s) the theorems are about, writes evidence/<id>.json.")
json.dump(m, open(os.path.join(V, "MANIFEST.json"), "w"), indent=1)
