"""C17 — decided on the serial dependency engine; see deps_check.py (shared body) and DESIGN §7.
Plus a process-level scenario: the queries run from several working directories name the same files."""
import deps_check
from common import *
from c_deps_common import *


def cwd_scenario(viol):
    """redo-ood / redo-targets / redo-sources print names relative to the directory they are run in: resolved against
    that directory, the three lists are the same sets from every directory (here `lib/` and `libexec/`, whose paths
    share a string prefix, a directory with a sibling `lib.do`-like name, and the top), and after an edit
    everything a following redo-ifchange rebuilds was named by redo-ood run there."""
    from proj import Project
    pr = Project()
    try:
        for d in ("lib", "libexec", "doc"):
            os.makedirs(pr.path(d))
        pr.write("lib/a.src", "1\n")
        pr.write("libexec/b.src", "1\n")
        pr.write("lib/a.do", "redo-ifchange a.src\ncat a.src\n")
        pr.write("libexec/b.do", "redo-ifchange b.src\ncat b.src\n")
        pr.write("docs.do", "redo-ifchange lib/a\necho docs\n")
        pr.write("doc/x.do", "redo-ifchange ../libexec/b\necho x\n")
        pr.write("all.do", "redo-ifchange lib/a libexec/b docs doc/x\necho all\n")
        rc, o, e = pr.run(["redo", "all"])
        problems = []
        if rc != 0:
            problems.append("set-up build failed: " + e[-300:])

        def listing(cmd, cwd):
            rc, o, e = pr.run([cmd], cwd=cwd)
            if rc != 0:
                problems.append("%s in %s exited %d" % (cmd, cwd, rc))
            return sorted(os.path.normpath(os.path.join(cwd, l)) for l in o.split("\n") if l)
        for rnd in (1, 2):
            ref = {}
            for cwd in (".", "lib", "libexec", "doc"):
                for cmd in ("redo-targets", "redo-sources", "redo-ood"):
                    got = listing(cmd, cwd)
                    if cmd not in ref:
                        ref[cmd] = got
                    elif got != ref[cmd]:
                        problems.append("%s run in %s/ names %s, run at the top it names %s" % (cmd, cwd, [x for x in got if x not in ref[cmd]] or got, [x for x in ref[cmd] if x not in got] or ref[cmd]))
            want_t = ["all", "doc/x", "docs", "lib/a", "libexec/b"]
            if ref.get("redo-targets") != want_t:
                problems.append("redo-targets names %s, the targets are %s" % (ref.get("redo-targets"), want_t))
            if rnd == 1:
                if ref.get("redo-ood"):
                    problems.append("redo-ood names %s right after a build" % ref["redo-ood"])
                pr.write("libexec/b.src", "2\n")
            else:
                if ref.get("redo-ood") != ["all", "doc/x", "libexec/b"]:
                    problems.append("after editing libexec/b.src redo-ood names %s, a rebuild runs all, doc/x, libexec/b" % ref.get("redo-ood"))
            if problems:
                break
        if problems:
            p = write_replay("C17", "cwd", dict(kind="impl-monitor", problems=problems, tree="lib/a libexec/b docs doc/x all; queries run in ., lib, libexec, doc"))
            viol.append(Violation("C17", p, "queries from several working directories: " + "; ".join(problems[:2])))
    finally:
        pr.destroy()


def run(ctx):
    viol = ctx.setdefault("violations", [])
    cwd_scenario(viol)
    if viol:
        return dict(evaluations=1, distinct_nontrivial=1, rule="queries from several working directories", samples=[])
    cov = deps_check.run_property(ctx, "C17", FEATURES["C17"], NCASES["C17"], WANT["C17"], known_matcher=KNOWN.get("C17"))
    cov["rule"] = "queries run from four working directories of one project (string-prefix sibling directories), before and after an edit; " + cov.get("rule", "")
    return cov
