"""C17 — decided on the serial dependency engine; see deps_check.py (shared body) and DESIGN §7.
Plus a process-level scenario: the queries run from several working directories name the same files."""
import deps_check
from common import *
from c_deps_common import *


def cwd_scenario(viol):
    """redo-ood / redo-targets / redo-sources print names relative to the directory they are run in: resolved against
    that directory, the three lists are the same sets from every directory (here `lib/` and `libexec/`, whose paths
    share a string prefix, a directory with a sibling `lib.do`-like name, and the top), and after an edit
    everything a following redo-ifchange rebuilds was named by redo-ood run there."""
    from proj import Project
    pr = Project()
    try:
        for d in ("lib", "libexec", "doc"):
            os.makedirs(pr.path(d))
        pr.write("lib/a.src", "1\n")
        pr.write("libexec/b.src", "1\n")
        pr.write("lib/a.do", "redo-ifchange a.src\ncat a.src\n")
        pr.write("libexec/b.do", "redo-ifchange b.src\ncat b.src\n")
        pr.write("docs.do", "redo-ifchange lib/a\necho docs\n")
        pr.write("doc/x.do", "redo-ifchange ../libexec/b\necho x\n")
        pr.write("all.do", "redo-ifchange lib/a libexec/b docs doc/x\necho all\n")
        rc, o, e = pr.run(["redo", "all"])
        problems = []
        if rc != 0:
            problems.append("set-up build failed: " + e[-300:])

        def listing(cmd, cwd):
            rc, o, e = pr.run([cmd], cwd=cwd)
            if rc != 0:
                problems.append("%s in %s exited %d" % (cmd, cwd, rc))
            return sorted(os.path.normpath(os.path.join(cwd, l)) for l in o.split("\n") if l)
        for rnd in (1, 2):
            ref = {}
            for cwd in (".", "lib", "libexec", "doc"):
                for cmd in ("redo-targets", "redo-sources", "redo-ood"):
                    got = listing(cmd, cwd)
                    if cmd not in ref:
                        ref[cmd] = got
                    elif got != ref[cmd]:
                        problems.append("%s run in %s/ names %s, run at the top it names %s" % (cmd, cwd, [x for x in got if x not in ref[cmd]] or got, [x for x in ref[cmd] if x not in got] or ref[cmd]))
            want_t = ["all", "doc/x", "docs", "lib/a", "libexec/b"]
            if ref.get("redo-targets") != want_t:
                problems.append("redo-targets names %s, the targets are %s" % (ref.get("redo-targets"), want_t))
            if rnd == 1:
                if ref.get("redo-ood"):
                    problems.append("redo-ood names %s right after a build" % ref["redo-ood"])
                pr.write("libexec/b.src", "2\n")
            else:
                if ref.get("redo-ood") != ["all", "doc/x", "libexec/b"]:
                    problems.append("after editing libexec/b.src redo-ood names %s, a rebuild runs all, doc/x, libexec/b" % ref.get("redo-ood"))
            if problems:
                break
        if problems:
            p = write_replay("C17", "cwd", dict(kind="impl-monitor", problems=problems, tree="lib/a libexec/b docs doc/x all; queries run in ., lib, libexec, doc"))
            viol.append(Violation("C17", p, "queries from several working directories: " + "; ".join(problems[:2])))
    finally:
        pr.destroy()


def vanished_directory_scenario(viol):
    """A directory that held known files is replaced by a plain file (the user reorganised the tree).  The files below it
    are simply gone: the three queries still answer (exit 0, disjoint lists, the surviving files all named), what
    redo-ood names for the survivors is still what a following redo-ifchange rebuilds, and that redo-ifchange works."""
    import shutil
    from proj import Project
    for how in ("file", "loop"):
        if _vanished_directory(viol, how):
            return


def _vanished_directory(viol, how):
    """how = "file": the directory becomes a plain file (ENOTDIR below it); "loop": it becomes a symbolic link to itself
    (`ln -s d d`, ELOOP below it — what a botched `ln -sf` leaves behind)."""
    import shutil
    from proj import Project
    pr = Project()
    try:
        os.makedirs(pr.path("d"))
        pr.write("d/x.do", "redo-ifchange src\ncat src\n")
        pr.write("d/src", "1\n")
        pr.write("keep.do", "redo-ifchange ksrc\ncat ksrc\n")
        pr.write("ksrc", "1\n")
        rc, o, e = pr.run(["redo", "d/x", "keep"])
        problems = []
        if rc != 0:
            problems.append("set-up build failed: " + e[-200:])
        shutil.rmtree(pr.path("d"))
        if how == "file":
            pr.write("d", "now a file\n")
        else:
            os.symlink("d", pr.path("d"))
        pr.write("ksrc", "2\n")
        lists = {}
        for cmd in ("redo-targets", "redo-sources", "redo-ood"):
            rc, o, e = pr.run([cmd])
            lists[cmd] = sorted(l for l in o.split("\n") if l)
            if rc != 0:
                problems.append("%s exited %d: %s" % (cmd, rc, (e.strip().splitlines() or [""])[-1][:160]))
        if not problems:
            if set(lists["redo-targets"]) & set(lists["redo-sources"]):
                problems.append("redo-targets and redo-sources both name %r" % sorted(set(lists["redo-targets"]) & set(lists["redo-sources"])))
            for f in ("keep",):
                if f not in lists["redo-targets"]:
                    problems.append("redo-targets does not name %s" % f)
            for f in ("ksrc", "keep.do"):
                if f not in lists["redo-sources"]:
                    problems.append("redo-sources does not name %s" % f)
            if "keep" not in lists["redo-ood"]:
                problems.append("redo-ood does not name keep although its source was edited")
            rc, o, e = pr.run(["redo-ifchange", "keep"])
            if rc != 0 or pr.read("keep") != b"2\n":
                problems.append("redo-ifchange keep: exit %d, keep=%r" % (rc, pr.read("keep")))
        if problems:
            p = write_replay("C17", "vanished-dir-" + how, dict(kind="impl-monitor", problems=problems, lists=lists, scenario="d/x (target) and d/src known; rm -rf d; %s; edit ksrc; redo-targets / redo-sources / redo-ood; redo-ifchange keep" % ("echo file >d" if how == "file" else "ln -s d d")))
            viol.append(Violation("C17", p, "a directory of known files replaced by %s: " % ("a plain file" if how == "file" else "a symbolic link to itself") + "; ".join(problems[:3])))
            return True
    finally:
        pr.destroy()
    return False


def run(ctx):
    viol = ctx.setdefault("violations", [])
    cwd_scenario(viol)
    if not viol:
        vanished_directory_scenario(viol)
    if viol:
        return dict(evaluations=1, distinct_nontrivial=1, rule="queries from several working directories", samples=[])
    cov = deps_check.run_property(ctx, "C17", FEATURES["C17"], NCASES["C17"], WANT["C17"], known_matcher=deps_check.rule_removed_matcher("C17", KNOWN.get("C17")))
    cov["rule"] = "queries run from four working directories of one project (string-prefix sibling directories), before and after an edit; " + cov.get("rule", "")
    return cov
