"""Shared machinery of the checks: builds (cargo + lake) from /repo's working tree,
Lean proof audit, the line-protocol differential runner, evidence and violation
reporting, known findings."""
import fcntl, hashlib, json, os, random, re, shutil, subprocess, sys, tempfile, time

VERIF = os.path.dirname(os.path.dirname(os.path.abspath(__file__)))
REPO = os.environ.get("VERIF_REPO", "/repo")
BUILD = os.environ.get("VERIF_BUILD") or os.path.join(VERIF, "build")
LEAN = os.path.join(VERIF, "lean")
TARGET = os.path.join(BUILD, "target")
BIN = os.path.join(BUILD, "bin")
RH = os.path.join(TARGET, "debug", "rh")
REDO = os.path.join(TARGET, "debug", "redo")
MODEL = os.path.join(LEAN, ".lake", "build", "bin", "redomodel")
REPLAYS = os.path.join(BUILD, "replays")
ALLOWED_AXIOMS = {"propext", "Classical.choice", "Quot.sound"}
REDO_NAMES = ["redo", "redo-ifchange", "redo-ifcreate", "redo-always", "redo-stamp", "redo-ood",
              "redo-targets", "redo-sources", "redo-log", "redo-whichdo", "redo-unlocked"]

ENV_OFFLINE = {"CARGO_NET_OFFLINE": "true"}


class Violation(Exception):
    def __init__(self, prop, replay, what, no_input=False):
        self.prop, self.replay, self.what, self.no_input = prop, replay, what, no_input


def log(*a):
    print(*a, file=sys.stderr, flush=True)


def sh(cmd, **kw):
    env = dict(os.environ)
    env.update(ENV_OFFLINE)
    env.update(kw.pop("env", {}))
    return subprocess.run(cmd, env=env, **kw)


class BuildLock:
    def __enter__(self):
        os.makedirs(BUILD, exist_ok=True)
        self.f = open(os.path.join(BUILD, ".lock"), "w")
        fcntl.flock(self.f, fcntl.LOCK_EX)
        return self

    def __exit__(self, *a):
        fcntl.flock(self.f, fcntl.LOCK_UN)
        self.f.close()


class LeanLock:
    """The Lean project is shared by every check whatever its build directory (seed lanes use private build directories
    but one .lake): two `lake build`s at once can lose each other's .olean files."""
    def __enter__(self):
        self.f = open(os.path.join(LEAN, ".verif-lock"), "w")
        fcntl.flock(self.f, fcntl.LOCK_EX)
        return self

    def __exit__(self, *a):
        fcntl.flock(self.f, fcntl.LOCK_UN)
        self.f.close()


def build_rust():
    """Rebuild the harness and the instrumented redo from the repository's current working tree."""
    with BuildLock():
        # the harness crate is materialised under BUILD with a path dependency on REPO
        hdir = os.path.join(BUILD, "harness")
        os.makedirs(os.path.join(hdir, "src"), exist_ok=True)
        os.makedirs(os.path.join(hdir, ".cargo"), exist_ok=True)
        def put(path, text):
            if not os.path.exists(path) or open(path).read() != text:
                with open(path, "w") as f:
                    f.write(text)
        put(os.path.join(hdir, "Cargo.toml"), open(os.path.join(VERIF, "harness", "Cargo.toml")).read().replace('path = "/repo"', 'path = "%s"' % REPO))
        put(os.path.join(hdir, "src", "main.rs"), open(os.path.join(VERIF, "harness", "src", "main.rs")).read())
        put(os.path.join(hdir, ".cargo", "config.toml"), "[net]\noffline = true\n")
        shutil.copyfile(os.path.join(REPO, "Cargo.lock"), os.path.join(hdir, "Cargo.lock"))
        # VERIF_COVERAGE=1 (tools/coverage.sh): an instrumented build with the nightly toolchain, whose llvm-tools read the
        # profiles; used to measure which parts of /repo the correspondence runs execute, never by a registered check
        cov = os.environ.get("VERIF_COVERAGE") == "1"
        cargo = ["cargo"]
        cenv = {"RUSTFLAGS": "-C instrument-coverage", "LLVM_PROFILE_FILE": "/dev/null"} if cov else {}
        r = sh(cargo + ["build", "--offline", "--quiet", "--manifest-path",
                os.path.join(hdir, "Cargo.toml"), "--target-dir", TARGET], env=cenv,
               stdout=subprocess.PIPE, stderr=subprocess.STDOUT, text=True)
        if r.returncode != 0:
            return False, "harness build failed:\n" + r.stdout[-4000:]
        r = sh(cargo + ["build", "--offline", "--quiet", "--manifest-path", os.path.join(REPO, "Cargo.toml"),
                "--features", "verif", "--target-dir", TARGET], env=cenv,
               stdout=subprocess.PIPE, stderr=subprocess.STDOUT, text=True)
        if r.returncode != 0:
            return False, "redo build failed:\n" + r.stdout[-4000:]
        os.makedirs(BIN, exist_ok=True)
        for n in REDO_NAMES:
            p = os.path.join(BIN, n)
            if os.path.islink(p) or os.path.exists(p):
                os.unlink(p)
            os.symlink(REDO, p)
    return True, ""


def strip_comments(src):
    src = re.sub(r"/-.*?-/", "", src, flags=re.S)
    src = re.sub(r"--.*", "", src)
    return src


EXTRA_PROP_MODULES = {"C17": [("C17e", "C17e")], "C09": [("C09c", "C09")], "C10": [("C09c", "C10")], "C06": [("C06b", "C06")]}

FORBIDDEN = re.compile(r"\bsorry\b|\badmit\b|^axiom |native_decide|bv_decide|implemented_by|\bunsafe |maxHeartbeats 0", re.M)


def lean_check(prop, thorough=False):
    """Build Props.<prop> + driver, audit axioms.  Returns dict(theorems=[...], ok, msg)."""
    with BuildLock(), LeanLock():
        gen = sh([sys.executable, os.path.join(VERIF, "tools", "extract_consts.py")],
                 stdout=subprocess.PIPE, stderr=subprocess.STDOUT, text=True)
        if gen.returncode != 0:
            return dict(ok=False, msg="constant extraction from /repo failed:\n" + gen.stdout[-3000:], theorems=[])
        try:
            fallbacks = json.loads(gen.stdout.strip().splitlines()[-1]).get("fallbacks", [])
        except Exception:
            fallbacks = []
        r = sh(["lake", "build", "RedoModel.Props." + prop, "RedoModel.AuditCmd", "redomodel"], cwd=LEAN,
               stdout=subprocess.PIPE, stderr=subprocess.STDOUT, text=True)
        if r.returncode != 0:
            return dict(ok=False, msg="lake build failed:\n" + r.stdout[-6000:], theorems=[])
        # forbidden tokens anywhere in the library
        bad = []
        for root, _, files in os.walk(os.path.join(LEAN, "RedoModel")):
            for fn in files:
                if fn.endswith(".lean"):
                    p = os.path.join(root, fn)
                    m = FORBIDDEN.search(strip_comments(open(p).read()))
                    if m:
                        bad.append("%s: %s" % (p, m.group(0)))
        if bad:
            return dict(ok=False, msg="forbidden token(s): " + "; ".join(bad), theorems=[])
        os.makedirs(BUILD, exist_ok=True)
        thms = []
        # property files that cannot be imported together with the main one (name clashes between older lemma files)
        # are built and audited on their own: module -> namespace
        for mod, ns in [(prop, prop)] + EXTRA_PROP_MODULES.get(prop, []):
            if mod != prop:
                r = sh(["lake", "build", "RedoModel.Props." + mod], cwd=LEAN, stdout=subprocess.PIPE, stderr=subprocess.STDOUT, text=True)
                if r.returncode != 0:
                    return dict(ok=False, msg="lake build failed:\n" + r.stdout[-6000:], theorems=[])
            af = os.path.join(BUILD, "audit_%s.lean" % mod)
            with open(af, "w") as f:
                f.write("import RedoModel.AuditCmd\nimport RedoModel.Props.%s\n#audit %s\n" % (mod, ns))
            r = sh(["lake", "env", "lean", af], cwd=LEAN, stdout=subprocess.PIPE, stderr=subprocess.STDOUT, text=True)
            if r.returncode != 0:
                return dict(ok=False, msg="audit failed:\n" + r.stdout[-3000:], theorems=[])
            thms += [json.loads(l[6:]) for l in r.stdout.splitlines() if l.startswith("AUDIT ")]
        if thorough:
            rc = sh(["lake", "env", "leanchecker", "RedoModel.Props." + prop], cwd=LEAN,
                    stdout=subprocess.PIPE, stderr=subprocess.STDOUT, text=True)
            if rc.returncode != 0:
                return dict(ok=False, msg="leanchecker rejected Props.%s:\n%s" % (prop, rc.stdout[-2000:]), theorems=thms)
    badax = [t for t in thms if not set(t["axioms"]) <= ALLOWED_AXIOMS]
    if badax:
        return dict(ok=False, msg="axioms outside the allowed set: %r" % [(t["theorem"], t["axioms"]) for t in badax], theorems=thms)
    if not thms:
        return dict(ok=False, msg="no theorems found in namespace " + prop, theorems=[])
    return dict(ok=True, msg="", theorems=thms, extraction_fallbacks=fallbacks)


def hx(s):
    b = s if isinstance(s, bytes) else s.encode("utf-8")
    return b.hex() if b else "-"


def unhx(s):
    return b"" if s == "-" else bytes.fromhex(s)


def run_lines(exe, lines, cwd=None, env=None):
    data = ("\n".join(lines) + "\n").encode()
    e = dict(os.environ)
    if env:
        e.update(env)
    for attempt in range(60):
        try:
            r = subprocess.run([exe], input=data, stdout=subprocess.PIPE, stderr=subprocess.PIPE, cwd=cwd, env=e)
            break
        except (FileNotFoundError, PermissionError, OSError):
            # the driver is being relinked by a concurrent `lake build` (another check running at the same time)
            if attempt == 59:
                raise
            time.sleep(1)
    out = r.stdout.decode("utf-8", "replace").splitlines()
    if len(out) != len(lines):
        raise RuntimeError("%s answered %d lines for %d requests (rc=%s, stderr=%s)" %
                           (exe, len(out), len(lines), r.returncode, r.stderr[-500:]))
    return out


def diff_lines(lines, cwd=None):
    """Run the same requests through model and implementation; return list of (line, model, impl) that differ."""
    m = run_lines(MODEL, lines)
    i = run_lines(RH, lines, cwd=cwd)
    return [(l, a, b) for l, a, b in zip(lines, m, i) if a != b], m, i


def seed():
    try:
        return int(os.environ.get("VERIF_SEED", "1"))
    except ValueError:
        return 1


def write_replay(prop, name, obj):
    os.makedirs(REPLAYS, exist_ok=True)
    p = os.path.join(REPLAYS, "%s-%s.json" % (prop, re.sub(r"[^A-Za-z0-9_.=,-]", "_", str(name))[:80]))
    with open(p, "w") as f:
        json.dump(obj, f, indent=1, default=str)
    return p


def known_findings(prop):
    p = os.path.join(VERIF, "known_findings.json")
    if not os.path.exists(p):
        return []
    return [k for k in json.load(open(p)).get("findings", []) if k.get("property") == prop]


def write_evidence(prop, tier, lean, cov, assumptions, wall, violations):
    thms = lean.get("theorems", [])
    ok = [t for t in thms if set(t["axioms"]) <= ALLOWED_AXIOMS]
    coverage = dict(
        obligations=max(len(thms), 1),
        discharged=len(ok) if lean.get("ok") else 0,
        checker_cmd="cd /verif/lean && lake build RedoModel.Props.%s && lake env lean ../build/audit_%s.lean  (kernel check + Lean.collectAxioms per theorem)%s"
        % (prop, prop, " && lake env leanchecker RedoModel.Props.%s" % prop if tier == "thorough" else ""),
        trusted_base=["Lean 4.33.0 kernel", "axioms: propext, Classical.choice, Quot.sound (audited per theorem on this run)",
                      "hand-written Lean model tied to /repo by the correspondence check of this run (tools/, harness/rh, verif hooks)"],
        theorems=[dict(name=t["theorem"], axioms=t["axioms"], statement_sha1=hashlib.sha1(t["statement"].encode()).hexdigest()[:12]) for t in thms],
    )
    coverage.update(cov)
    try:
        import proj
        if proj.STRAY_REMOVED:
            coverage["stray_project_databases_removed"] = list(proj.STRAY_REMOVED)
    except Exception:
        pass
    if lean.get("extraction_fallbacks"):
        coverage["generated_constants_kept_from_last_run"] = lean["extraction_fallbacks"]
    ev = dict(property_id=prop, tier=tier, seed=seed(), level="proof", coverage=coverage,
              assumptions=assumptions, wall_s=round(wall, 2), violations=violations)
    # evidence under /verif/evidence only describes /repo itself; runs against a scratch copy keep theirs with the build
    # evidence is what THE registered check wrote about /repo itself: a run against a scratch copy of the repository, with
    # a private build directory, or of the coverage measurement keeps its evidence with its build
    own = os.path.realpath(REPO) == "/repo" and os.path.realpath(BUILD) == os.path.realpath(os.path.join(VERIF, "build")) and os.environ.get("VERIF_COVERAGE") != "1"
    evdir = os.path.join(VERIF, "evidence") if own else os.path.join(BUILD, "evidence")
    os.makedirs(evdir, exist_ok=True)
    with open(os.path.join(evdir, prop + ".json"), "w") as f:
        json.dump(ev, f, indent=1, default=str)


def mkscratch(prefix="redo-verif-"):
    return tempfile.mkdtemp(prefix=prefix)
