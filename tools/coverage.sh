#!/bin/bash
# Which lines of /repo/src do the quick checks execute?  A measurement for whoever extends the checks (it guides new
# scenarios; it is not a check and is not registered): builds redo with source-based coverage (the repository's own toolchain; the nightly toolchain's
# llvm-tools read the profiles) into a private build directory, runs the given quick checks against it, merges the
# profiles and prints per-file and per-function line coverage of the instrumented binary.
# usage: tools/coverage.sh [ids...]   (default: all 18)      output: /tmp/verif-cov/report.txt, functions.txt
set -u
cd "$(dirname "$0")/.."
OUT=/tmp/verif-cov; rm -rf "$OUT"; mkdir -p "$OUT/prof"
export VERIF_COVERAGE=1 VERIF_BUILD="$OUT/build" LLVM_PROFILE_FILE="$OUT/prof/%p-%m.profraw"
IDS="${*:-C01 C02 C03 C04 C05 C06 C07 C08 C09 C10 C11 C12 C13 C14 C15 C16 C17 C18}"
for id in $IDS; do
  ./check $id --tier quick >/dev/null 2>&1; echo "$id rc=$?"
done
TOOLS=$(dirname "$(rustup +nightly which rustc)")/../lib/rustlib/x86_64-unknown-linux-gnu/bin
"$TOOLS/llvm-profdata" merge -sparse "$OUT"/prof/*.profraw -o "$OUT/all.profdata" 2>"$OUT/merge.err"
"$TOOLS/llvm-cov" report "$OUT/build/target/debug/redo" -instr-profile="$OUT/all.profdata" --ignore-filename-regex='/.cargo/|/rustc/' > "$OUT/report.txt" 2>&1
"$TOOLS/llvm-cov" report "$OUT/build/target/debug/redo" -instr-profile="$OUT/all.profdata" --ignore-filename-regex='/.cargo/|/rustc/' -show-functions /repo/src/*.rs /repo/src/bin/redo/*.rs > "$OUT/functions.txt" 2>&1
"$TOOLS/llvm-cov" show "$OUT/build/target/debug/redo" -instr-profile="$OUT/all.profdata" --ignore-filename-regex='/.cargo/|/rustc/' > "$OUT/show.txt" 2>&1
tail -40 "$OUT/report.txt"
