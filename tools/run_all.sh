#!/bin/bash
# Run every registered check at one tier, sequentially; print one line per property.  usage: tools/run_all.sh quick|thorough [ids...]
cd "$(dirname "$0")/.."
TIER="${1:-quick}"; shift
IDS="${*:-C01 C02 C03 C04 C05 C06 C07 C08 C09 C10 C11 C12 C13 C14 C15 C16 C17 C18}"
./check --setup >/dev/null 2>&1 || { echo "setup failed"; exit 2; }
for p in $IDS; do
  s=$(date +%s)
  out=$(./check "$p" --tier "$TIER" 2>/dev/null); rc=$?
  echo "$p tier=$TIER rc=$rc $(( $(date +%s)-s ))s $(echo "$out" | grep -E '^(VIOLATION|KNOWN-FINDING)' | cut -c1-260 | tr '\n' '|')"
done
