"""C02 — decided on the serial dependency engine; see deps_check.py (shared body) and DESIGN §7."""
import deps_check
from c_deps_common import *

def run(ctx):
    return deps_check.run_property(ctx, "C02", FEATURES["C02"], NCASES["C02"], WANT["C02"], known_matcher=KNOWN.get("C02"))
