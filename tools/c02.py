"""C02 — decided on the serial dependency engine; see deps_check.py (shared body) and DESIGN §7."""
import random
import deps_check, depsgen, c10
from c_deps_common import *

def run(ctx):
    # the old dependency rows must stay in force while a rebuild is in flight (zap_deps1 .. zap_deps2): some histories
    # contain builds killed part-way (C10's operation), after which the target must still be found dirty
    rng = random.Random(ctx["seed"] * 47 + 2)
    killed = [c10.with_crashes(rng, depsgen.gen_case(rng, features=FEATURES["C02"])) for _ in range(150 if ctx["tier"] == "thorough" else 15)]
    cov = deps_check.run_property(ctx, "C02", FEATURES["C02"], NCASES["C02"], WANT["C02"] | {"C01"}, known_matcher=deps_check.nested_overbuild_matcher("C02", c10.kill_window_matcher("C02")), extra_cases=killed)
    cov["histories_with_killed_builds"] = len(killed)
    return cov
