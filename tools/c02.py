import os
"""C02 — decided on the serial dependency engine; see deps_check.py (shared body) and DESIGN §7."""
import random
import deps_check, depsgen, c10
from c_deps_common import *

def never_built_scenarios(viol):
    """"Runs the .do of a target … if that target was never built": two ways of never having been built that leave
    traces behind.  (1) The FIRST build of a checksummed target is killed after its `redo-stamp` (the record already says
    generated / changed in that run, there is no file and no stamp): the next redo-ifchange must run the script.  (2) A
    target in a directory that its own script creates (rule in an ancestor directory), and a more specific rule added
    in that directory later: the next redo-ifchange must rebuild it with the new rule."""
    import signal, subprocess, time as _t
    from proj import Project, clean_env
    from common import write_replay, Violation
    pr = Project()
    try:
        pr.write("src", "v1\n")
        pr.write("gen.do", "echo ran >>gen.runs\nredo-ifchange src\nredo-stamp <src\n: >stamped\nif [ -e hold ]; then sleep 5; fi\ncat src\n")
        pr.write("hold", "")
        p = subprocess.Popen(["redo-ifchange", "gen"], cwd=pr.root, env=clean_env(), stdout=subprocess.DEVNULL, stderr=subprocess.DEVNULL, stdin=subprocess.DEVNULL, start_new_session=True)
        t0 = _t.time()
        while not os.path.exists(pr.path("stamped")) and _t.time() - t0 < 20:
            _t.sleep(0.05)
        _t.sleep(0.2)
        try:
            os.killpg(p.pid, signal.SIGKILL)
        except ProcessLookupError:
            pass
        p.wait()
        pr.rm("hold")
        before = len((pr.read("gen.runs") or b"").split())
        rc, o, e = pr.run(["redo-ifchange", "gen"], timeout=60)
        after = len((pr.read("gen.runs") or b"").split())
        if rc != 0 or after != before + 1 or pr.read("gen") != b"v1\n":
            pth = write_replay("C02", "never-built-killed-first-build", dict(kind="impl-monitor", clause="runs the .do of a target if that target was never built", rc=rc, runs_before=before, runs_after=after, gen=repr(pr.read("gen")), stderr=e[-600:],
                                                                            scenario="gen.do: redo-ifchange src; redo-stamp <src; (slow); cat src.  first redo-ifchange gen killed (whole tree) after the redo-stamp; redo-ifchange gen"))
            viol.append(Violation("C02", pth, "a target whose first build was killed after its redo-stamp: the next redo-ifchange exits %d, gen.do ran %d time(s), gen holds %r" % (rc, after - before, pr.read("gen"))))
            return
    finally:
        pr.destroy()
    pr = Project()
    try:
        pr.write("default.txt.do", 'mkdir -p "$(dirname "$1")"\necho "top rule for $1"\n')
        rc, o, e = pr.run(["redo-ifchange", "out/sub/x.txt"], timeout=60)
        first = pr.read("out/sub/x.txt")
        pr.write("out/sub/default.txt.do", 'echo "sub rule for $1"\n')
        rc2, o2, e2 = pr.run(["redo-ifchange", "out/sub/x.txt"], timeout=60)
        second = pr.read("out/sub/x.txt")
        rc3, o3, e3 = pr.run(["redo-ifchange", "out/sub/x.txt"], timeout=60)
        if rc != 0 or rc2 != 0 or second != b"sub rule for x.txt\n":
            pth = write_replay("C02", "never-built-late-directory", dict(kind="impl-monitor", clause="… or one of its currently declared dependencies (including … the absence of higher-priority .do files) changed", rcs=[rc, rc2, rc3], first=repr(first), second=repr(second), stderr=e2[-600:],
                                                                        scenario="default.txt.do (mkdir -p of the target's directory); redo-ifchange out/sub/x.txt; create out/sub/default.txt.do; redo-ifchange out/sub/x.txt"))
            viol.append(Violation("C02", pth, "a higher-priority rule created in a directory that did not exist when the target was first built: out/sub/x.txt holds %r after the next redo-ifchange (exit %d), the new rule gives 'sub rule for x.txt'" % (second, rc2)))
    finally:
        pr.destroy()


def run(ctx):
    # the old dependency rows must stay in force while a rebuild is in flight (zap_deps1 .. zap_deps2): some histories
    # contain builds killed part-way (C10's operation), after which the target must still be found dirty
    rng = random.Random(ctx["seed"] * 47 + 2)
    killed = [c10.with_crashes(rng, depsgen.gen_case(rng, features=FEATURES["C02"])) for _ in range(150 if ctx["tier"] == "thorough" else 15)]
    cov = deps_check.run_property(ctx, "C02", FEATURES["C02"], NCASES["C02"], WANT["C02"] | {"C01"}, known_matcher=deps_check.nested_overbuild_matcher("C02", c10.kill_window_matcher("C02")), extra_cases=killed)
    cov["histories_with_killed_builds"] = len(killed)
    viol = ctx.setdefault("violations", [])
    if not viol and not ctx.get("replay"):
        never_built_scenarios(viol)
        cov["directed_scenarios"] = 2
    return cov
