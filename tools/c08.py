"""C08 — job tokens are conserved and -j is respected.
Correspondence: every run's primitive token events (hooks js.*) are replayed through the Lean acceptor
`Tokens.step`, which checks each event's (my_tokens, cheats) against the model and the guards the theorems
need.  Implementation monitors: bytes left in an inherited jobserver's pipe, the top-level self-test,
number of simultaneously working scripts."""
import random
from common import *
from proj import Project
import sched

ASSUMPTIONS = [
    "a pipe delivers each byte to exactly one reader; O_APPEND trace lines are atomic; release is logged before the bytes are written and read after they are taken, so file order is consistent with causality",
    "short writes / EINTR on the pipes are not modelled",
    "one acceptor instance per jobserver; splitting the trace by jobserver is done by tools/sched.py",
]


def scenario(rng, kind, idx):
    g = sched.gen_graph(rng, rng.randint(3, 9))
    if kind == "fail":
        for nm in rng.sample(sorted(g), max(1, len(g) // 4)):
            g[nm]["fail"] = True
    if kind == "features":
        for nm in g:
            if rng.random() < 0.3:
                g[nm]["stamp"] = True
            if rng.random() < 0.2:
                g[nm]["always"] = True
    return g


def cheat_scenarios(viol, stats, samples):
    """The borrowed-token ("cheat") path: a top-level `redo all` with the log viewer under an inherited jobserver
    owned by the harness.  The job the viewer follows gives up its token while it waits for a target locked by a
    sibling, finds no token free when it wakes up, borrows one, and (1) exits still holding it / (2) has to give it
    up again for a second locked target.  Afterwards the pipe must hold exactly the tokens it held before."""
    scen = [
        ("cheater exits with the borrowed token", 1,
         {"all": "redo-ifchange a b c d\n", "a": "sleep 0.3\nredo-ifchange s\necho a\n", "b": "redo-ifchange s\nsleep 1.6\necho b\n",
          "s": "sleep 0.9\necho s\n", "c": "sleep 2.4\necho c\n", "d": "sleep 0.2\necho d\n"}),
        ("cheater releases for a second locked target", 2,
         {"all": "redo-ifchange a b c d\n", "a": "sleep 0.3\nredo-ifchange s1 s2\necho a\n", "b": "redo-ifchange s1\nsleep 1.6\necho b\n",
          "c": "redo-ifchange s2\nsleep 1.2\necho c\n", "s1": "sleep 0.7\necho s1\n", "s2": "sleep 1.3\necho s2\n", "d": "sleep 2.0\necho d\n"}),
    ]
    spam = 'i=0\nwhile [ $i -lt 3000 ]; do echo "................................................................" >&2; i=$((i + 1)); done\n'
    scen[1][2]["a"] = spam + scen[1][2]["a"]
    for name, k, files in scen:
        pr = Project()
        ext = sched.ExtJobserver(k)
        try:
            for t, body in files.items():
                pr.write(t + ".do", body)
            if k == 1:
                r = sched.run_cmds(pr, [["redo", "all"]], env=ext.env(), timeout=60, pass_fds=ext.fds())[0]
            else:
                # keep the log viewer on `a`: nobody reads redo's output until everything is built, and a.do first
                # writes ~190 KB to stderr, so redo-log blocks in write() while it follows a (holding a's log lock)
                import subprocess, time as _t
                from proj import clean_env
                trace, work = pr.path(".verif-trace"), pr.path(".verif-work")
                e = clean_env(dict(REDO_VERIF_TRACE=trace, VERIF_WORK=work))
                e.update(ext.env())
                rfd, wfd = os.pipe()
                t0 = _t.time()
                pp = subprocess.Popen(["redo", "all"], cwd=pr.root, env=e, stdout=wfd, stderr=wfd, stdin=subprocess.DEVNULL, pass_fds=ext.fds(), start_new_session=True)
                os.close(wfd)
                while _t.time() - t0 < 40 and pp.poll() is None and not all(os.path.exists(pr.path(x)) for x in "abcd"):
                    _t.sleep(0.1)
                os.set_blocking(rfd, False)
                out = b""
                while pp.poll() is None and _t.time() - t0 < 60:
                    try:
                        out += os.read(rfd, 1 << 16)
                    except BlockingIOError:
                        _t.sleep(0.02)
                timed = pp.poll() is None
                if timed:
                    import signal
                    os.killpg(pp.pid, signal.SIGKILL)
                pp.wait()
                os.close(rfd)
                r = sched.Run(pp.returncode if not timed else -999, "", out.decode("utf-8", "replace")[-3000:], sched.parse_trace(trace), sched.parse_work(work), _t.time() - t0, timed)
            stats["runs"] += 1
            stats["inherited"] += 1
            stats["with_log"] += 1
            ncheat = sum(1 for e in r.trace if e[2] == "js.cheat")
            stats["cheats"] += ncheat
            stats["cheat_scenarios"] = stats.get("cheat_scenarios", 0) + 1
            left = ext.count()
            desc = dict(name=name, tokens_in_pipe_before=k, files=files, rc=r.rc, cheats=ncheat)
            problems = []
            if r.timed_out or r.rc != 0:
                problems.append("redo all exited %s" % r.rc)
            if left != k:
                problems.append("inherited jobserver pipe holds %d tokens after the run, %d before" % (left, k))
            rep = sched.replay_tokens(r.trace, ext_pipe=k)
            for grp, ans, nev in rep:
                stats["events"] += nev
                stats["groups"] += 1
                if not ans.startswith("ok"):
                    problems.append("token trace rejected by the model: " + ans)
            if problems:
                p = write_replay("C08", "cheat-%d" % k, dict(kind="impl-monitor+trace", scenario=desc, problems=problems, stderr=r.err[-1500:],
                                                           events=sched.token_groups(r.trace)))
                viol.append(Violation("C08", p, "%s: %s" % (name, "; ".join(problems))))
                return
            if ncheat and len(samples) < 3:
                samples.append(dict(scenario=desc, answer=rep[0][1] if rep else None))
        finally:
            ext.close()
            pr.destroy()


def _final_state(ans):
    """`ok pipe=.. cheat=.. total=.. V=.. procs=.. jobs=..` -> dict of ints."""
    return {k: int(v) for k, v in (f.split("=") for f in ans.split()[1:] if "=" in f)}


def lock_wait_scenarios(rng, viol, stats, samples):
    """Two recipes of a `make -jN` played by the harness (inherited jobserver, k tokens left in the pipe while both
    run), both top-level redo commands, both wanting target `x`: the WAITER first keeps all its k+1 slots busy with
    other targets, reaches `x` when the other command already builds it, gives its own token up (release_mine) and
    blocks on the lock; the other build then fails (or completes) `x`.  Being the top of its redo tree under a foreign
    jobserver, the waiter has nobody who would honour an IOU: when both commands are gone the pipe must hold exactly
    the k tokens it held before, and the model's pipe (replay of the js.* events) must agree, with no IOU left."""
    me = os.getpid()
    variants = [(0, True), (rng.choice([1, 2]), True), (rng.choice([0, 1]), False)]
    for vi, (k, fail) in enumerate(variants):
        log_on = rng.random() < 0.5
        wcmd = rng.choice(["redo", "redo", "redo-ifchange"])
        fcmd = rng.choice(["redo", "redo-ifchange"])
        wopts = ["-k"] if wcmd == "redo" and rng.random() < 0.3 else []
        for attempt in range(3):
            scale = 1.0 + attempt            # a lost race is retried with more room
            pre = ["p%d" % i for i in range(k + 1)]
            files = {"x.do": "sleep %.2f\necho 'x says so' >&2\n%s" % (1.1 * scale, "exit 3\n" if fail else "echo x\n")}
            for p in pre:
                files[p + ".do"] = "sleep %.2f\necho %s\n" % (0.7 * scale, p)
            pr = Project()
            ext = sched.ExtJobserver(k)
            try:
                for f, body in files.items():
                    pr.write(f, body)
                env = ext.env()
                if not log_on:
                    env["REDO_LOG"] = "0"
                cmds = [[wcmd] + wopts + pre + ["x"], [fcmd, "x"]]
                rs = sched.run_cmds(pr, cmds, env=env, timeout=60, stagger=0.2 * scale, pass_fds=ext.fds())
                left = ext.count()
                trace = rs[0].trace
                stats["runs"] += 1
                stats["inherited"] += 1
                stats["with_log"] += 1 if log_on else 0
                stats["failing"] += 1 if any(r.rc != 0 for r in rs) else 0
                stats["lock_wait_runs"] = stats.get("lock_wait_runs", 0) + 1
                tops = {e[0] for e in trace if e[2] == "js.setup" and e[3][1] == "inherited" and int(e[3][2]) == me}
                gave_up = set()                # top-level processes that released their own token and then blocked on a lock
                blocked = set()
                for pid, ts, name, a in trace:
                    if pid in tops and name == "js.release" and a[0] == "1" and a[2] == "0":
                        gave_up.add(pid)
                    elif pid in gave_up and name == "lock.wait.begin":
                        blocked.add(pid)
                desc = dict(tokens_in_pipe_before=k, other_build_fails=fail, log=log_on, argvs=cmds, rcs=[r.rc for r in rs],
                            files=files, waiter_blocked=bool(blocked), attempt=attempt)
                problems = []
                if any(r.timed_out for r in rs):
                    problems.append("the commands did not finish within 60 s")
                if left != k:
                    problems.append("inherited jobserver pipe holds %d tokens after `%s` and `%s` have exited, %d before%s"
                                    % (left, " ".join(cmds[0]), " ".join(cmds[1]), k,
                                       " (a top-level command gave up its token to wait for the locked target and the other build %s it)"
                                       % ("failed" if fail else "built") if blocked else ""))
                rep = sched.replay_tokens(trace, ext_pipe=k)
                for grp, ans, nev in rep:
                    stats["events"] += nev
                    stats["groups"] += 1
                    if not ans.startswith("ok"):
                        problems.append("token trace rejected by the model: " + ans)
                    elif grp == "ext" and not any(r.timed_out for r in rs):
                        fs = _final_state(ans)
                        if fs.get("procs") == 0 and (fs.get("pipe") != k or fs.get("cheat") != 0):
                            problems.append("after the last process of the inherited jobserver has exited the replayed token events leave pipe=%s (was %d) and %s unread IOU(s): a process at the top of its tree exited without the token it had released"
                                            % (fs.get("pipe"), k, fs.get("cheat")))
                if problems:
                    p = write_replay("C08", "lockwait-%d" % vi, dict(kind="impl-monitor+trace", scenario=desc, problems=problems,
                                                                   stderr=[r.err[-1200:] for r in rs], events=sched.token_groups(trace)))
                    viol.append(Violation("C08", p, "; ".join(problems)))
                    return
                if blocked:
                    stats["lock_wait_blocked"] = stats.get("lock_wait_blocked", 0) + 1
                    if fail and any("another thread" in r.err or "failed" in r.err for r in rs):
                        stats["lock_wait_other_failed"] = stats.get("lock_wait_other_failed", 0) + 1
                    if len(samples) < 4 and vi == 0:
                        samples.append(dict(scenario=desc, answer=[a for _, a, _ in rep]))
                    break
            finally:
                ext.close()
                pr.destroy()


def cheater_is_last_child_scenario(viol, stats, samples):
    """A top-level `redo-ifchange first other third` under a make-style jobserver (one token in the pipe, one implicit):
    `first.do` forces `c` while `other` is building it — it waits for the lock, gives up its token, cheats, builds `c`
    again on the borrowed token and is the LAST job of the command to finish.  The last child exit the top-level redo
    handles then settles the cheater's IOU, and redo is about to leave without a token: being the top of its redo tree
    it must take one back from the pipe (nobody above it reads IOUs; the caller takes its implicit slot back).  When the
    command is gone the pipe must hold exactly the one token it held before (before the repair: two)."""
    waitfor = 'waitfor() { _i=0; while [ ! -e "$1" ] && [ "$_i" -lt "$2" ]; do sleep 0.1; _i=$((_i+1)); done; [ -e "$1" ]; }\n'
    files = {
        "first.do": waitfor + "waitfor c.started 150\nredo c\n",
        "other.do": waitfor + "redo-ifchange c\nwaitfor c.second 150\n: >other.end\n",
        "third.do": waitfor + ": >third.started\nwaitfor c.second 150\n: >third.end\n",
        "c.do": waitfor + "if [ ! -e c.ran1 ]; then : >c.ran1; : >c.started; waitfor third.started 150; sleep 0.3\nelse : >c.second; waitfor other.end 150; waitfor third.end 150; sleep 0.7; fi\n",
    }
    pr = Project()
    ext = sched.ExtJobserver(1)
    try:
        for f, body in files.items():
            pr.write(f, body)
        rs = sched.run_cmds(pr, [["redo-ifchange", "first", "other", "third"]], env=ext.env(), timeout=120, pass_fds=ext.fds())
        left = ext.count()
        trace = rs[0].trace
        stats["runs"] += 1
        stats["inherited"] += 1
        cheated = sum(1 for e in trace if e[2] == "js.cheat")
        stats["cheater_last_child_cheats"] = cheated
        problems = []
        if rs[0].timed_out or rs[0].rc != 0:
            problems.append("exit status %s%s although every script succeeds" % (rs[0].rc, " (timed out)" if rs[0].timed_out else ""))
        if left != 1:
            problems.append("inherited jobserver pipe holds %d tokens after the command has exited, 1 before: redo %s a token" % (left, "created" if left > 1 else "lost"))
        for grp, ans, nev in sched.replay_tokens(trace, ext_pipe=1):
            stats["events"] += nev
            stats["groups"] += 1
            if not ans.startswith("ok"):
                problems.append("token trace rejected by the model: " + ans)
        if problems:
            p = write_replay("C08", "cheater-last-child", dict(kind="impl-monitor+trace", files=files, problems=problems, cheats=cheated, stderr=rs[0].err[-1500:], events=sched.token_groups(trace)))
            viol.append(Violation("C08", p, "make-style jobserver, the job that cheated is the last child of the top-level redo: " + "; ".join(problems)))
    finally:
        ext.close()
        pr.destroy()


def nested_j_scenarios(rng, viol, stats, samples):
    """A script runs `redo -jM sub` inside a wider build (outer `redo -jN`, or a jobserver with N-1 tokens inherited
    from the harness), M < N.  The nested redo starts a jobserver of its own; everything below it has to live on those
    M slots: the scripts of the sub-build (generated, they record work sections) never work more than M at a time (+1
    for the job the log viewer follows), the whole build never more than N, and the outer tokens are conserved."""
    first_own = rng.random() < 0.5
    for vi, (own, M) in enumerate([(first_own, 1), (not first_own, rng.choice([1, 1, 2]))]):
        N = rng.choice([4, 5])
        log_on = rng.random() < 0.5
        g = sched.gen_graph(rng, rng.randint(5, 6), shape=rng.choice(["fan", "diamond"]))
        for nm in g:
            g[nm]["dur"] = rng.choice([250, 350, 450]) if len(g[nm]["deps"]) <= 1 else 20
        pr = Project()
        ext = None
        try:
            extra = {"nest.do": "redo -j%d sub\n" % M, "o1.do": "sleep 0.05\necho o1\n",
                     "all.do": "redo-ifchange %s\n" % " ".join(rng.sample(["nest", "o1"], 2))}
            sched.write_project(pr, g, top="sub", extra=extra)
            env, fds = {}, ()
            if own:
                argv = ["redo", "-j%d" % N] + ([] if log_on else ["--no-log"]) + ["all"]
            else:
                ext = sched.ExtJobserver(N - 1)
                env, fds = ext.env(), ext.fds()
                if not log_on:
                    env["REDO_LOG"] = "0"
                argv = rng.choice([["redo", "-j%d" % M, "sub"], ["redo", "all"], ["redo-ifchange", "all"]])
            r = sched.run_cmds(pr, [argv], env=env, timeout=60, pass_fds=fds)[0]
            stats["runs"] += 1
            stats["own" if own else "inherited"] += 1
            stats["with_log"] += 1 if log_on else 0
            stats["failing"] += 1 if r.rc != 0 else 0
            stats["nested_j_runs"] = stats.get("nested_j_runs", 0) + 1
            sub_ov = sched.max_overlap([w for w in r.work if w[2] in g])
            ov = sched.max_overlap(r.work)
            stats["nested_max_overlap"] = max(stats.get("nested_max_overlap", 0), sub_ov)
            desc = dict(outer="redo -j%d" % N if own else "inherited jobserver, %d tokens in the pipe" % (N - 1), nested="redo -j%d sub" % M,
                        argv=argv, log=log_on, rc=r.rc, graph={k2: v["deps"] for k2, v in g.items()}, extra=extra,
                        sub_overlap=sub_ov, overlap=ov)
            problems = []
            slack = 1 if log_on else 0
            if r.timed_out:
                problems.append("run did not finish within 60 s")
            if sub_ov > M + slack:
                problems.append("%d scripts below the nested `redo -j%d sub` were working at the same time (outer %s)" % (sub_ov, M, desc["outer"]))
            if ov > N + slack:
                problems.append("%d scripts were working at the same time with %s" % (ov, desc["outer"]))
            if "on exit: expected" in r.err:
                problems.append("top-level self-test failed: " + re.search(r"on exit: expected[^\n]*", r.err).group(0))
            if ext:
                left = ext.count()
                if left != N - 1:
                    problems.append("inherited jobserver pipe holds %d tokens after the run, %d before" % (left, N - 1))
            rep = sched.replay_tokens(r.trace, ext_pipe=0 if own else N - 1)
            for grp, ans, nev in rep:
                stats["events"] += nev
                stats["groups"] += 1
                if not ans.startswith("ok"):
                    problems.append("token trace rejected by the model (jobserver %s): %s" % (grp, ans))
            stats["nested_jobservers"] = stats.get("nested_jobservers", 0) + max(0, len(rep) - 1)
            if problems:
                p = write_replay("C08", "nested-%d" % vi, dict(kind="impl-monitor+trace", scenario=desc, problems=problems, stderr=r.err[-1500:],
                                                             work=r.work, scripts={k2: pr.read(k2 + ".do").decode() for k2 in list(g) + ["sub", "nest", "all"]}))
                viol.append(Violation("C08", p, "; ".join(problems) + " (%s)" % " ".join(argv)))
                return
            if len(samples) < 5 and vi == 0:
                samples.append(dict(scenario=desc, answer=[a for _, a, _ in rep]))
        finally:
            if ext:
                ext.close()
            pr.destroy()


def nested_after_iou_scenarios(viol, stats, samples):
    """A nested redo that owns a jobserver (`redo -jM sub`, M = 2 and M = 1) finishes while an IOU of the OUTER tree is
    pending on the outer cheat pipe (A's redo-ifchange waited for a lock with its token given away, was followed by the log
    viewer, borrowed a token to come back and exited without one; the IOU is settled when A's script ends).  The nested
    jobserver must neither see nor consume that IOU: every jobserver owner ends with the tokens it started with, and
    the three jobs of phase 2 never run more than two at a time under `redo -j2`."""
    for M in (2, 1):
        pr = Project()
        try:
            rec = 'echo "B $$ %s $(date +%%s%%N)" >>"$VERIF_WORK"; echo "S $$ %s $(date +%%s%%N)" >>"$VERIF_WORK"; sleep 0.9; echo "E $$ %s $(date +%%s%%N)" >>"$VERIF_WORK"'
            pr.write("all.do", "redo-ifchange A B || echo phase1-failed >>notes\nredo-ifchange X1 X2 X3\n")
            pr.write("A.do", "sleep 0.4\nredo-ifchange L\nsleep 3.6\necho a\n")
            pr.write("B.do", "redo-ifchange L M N\necho b\n")
            pr.write("L.do", "sleep 1.3\necho L\n")
            pr.write("M.do", "sleep 2.7\nrc=0\nredo -j%d sub || rc=$?\necho \"nested rc=$rc\" >>notes\nexit $rc\n" % M)
            pr.write("N.do", "sleep 3.0\necho N\n")
            pr.write("sub.do", "redo-ifchange sub1 sub2\necho sub\n")
            pr.write("sub1.do", "sleep 0.15\necho sub1\n")
            pr.write("sub2.do", "sleep 0.15\necho sub2\n")
            for x in ("X1", "X2", "X3"):
                pr.write(x + ".do", (rec % (x, x, x)) + "\necho %s\n" % x)
            r = sched.run_cmds(pr, [["redo", "-j2", "all"]], timeout=60)[0]
            stats["runs"] += 1
            stats["nested_after_iou"] = stats.get("nested_after_iou", 0) + 1
            stats["nested_after_iou_cheats"] = stats.get("nested_after_iou_cheats", 0) + sum(1 for e in r.trace if e[2] == "js.cheat")
            notes = (pr.read("notes") or b"").decode()
            ov = sched.max_overlap([w for w in r.work if w[2] in ("X1", "X2", "X3")])
            problems = []
            if r.timed_out:
                problems.append("run did not finish within 60 s")
            if r.rc != 0:
                problems.append("`redo -j2 all` exited %d although every script succeeds" % r.rc)
            if "on exit: expected" in r.err:
                problems.append("a jobserver owner did not end with the tokens it started with: " + re.search(r"on exit: expected[^\n]*", r.err).group(0))
            if "nested rc=0" not in notes:
                problems.append("the nested `redo -j%d sub` reported %r" % (M, notes.strip()))
            if ov > 2:
                problems.append("%d of the three phase-2 scripts were working at the same time under -j2" % ov)
            rep = sched.replay_tokens(r.trace)
            for grp, ans, nev in rep:
                stats["events"] += nev
                stats["groups"] += 1
                if not ans.startswith("ok"):
                    problems.append("token trace rejected by the model (jobserver %s): %s" % (grp, ans))
            if problems:
                p = write_replay("C08", "nested-iou-%d" % M, dict(kind="impl-monitor+trace", nested="redo -j%d sub" % M, problems=problems, stderr=r.err[-1500:], notes=notes, work=r.work,
                                                                  scenario="all.do: redo-ifchange A B; redo-ifchange X1 X2 X3.  A.do: sleep 0.4; redo-ifchange L; sleep 3.6.  B.do: redo-ifchange L M N.  L.do: sleep 1.3.  M.do: sleep 2.7; redo -jM sub.  N.do: sleep 3.  redo -j2 all (log viewer on)"))
                viol.append(Violation("C08", p, "nested `redo -j%d sub` while an IOU of the outer tree is pending: %s" % (M, "; ".join(problems))))
                return
        finally:
            pr.destroy()


def cheater_meets_iou_scenario(viol, stats, samples):
    """A process that works on a borrowed token notices the exit of its own child while the IOU of an EARLIER cheater is
    still pending on the cheat pipe.  a.do: `redo-ifchange c` waits for c (being built under b), is starved, borrows,
    leaves without a token: IOU 1, pending until a.do ends.  Then `redo c2` (c2 under way below b2): waits for the lock,
    borrows a second time and, being a plain `redo`, rebuilds c2 with the borrowed token: when that child exits, IOU 1
    is on the pipe.  The child's token has to settle the process's own loan; the
    process must not be left with a loan and nothing to show for it (before d22951f: assertion failure in
    force_return_tokens, exit 101 of a's redo, `expected 3 tokens; found 5-0` at the top).  Every script succeeds, so
    `redo -j3 top` exits 0, the self-test passes and the token trace is accepted by the model."""
    pr = Project()
    try:
        pr.write("top.do", "redo-ifchange a b b2 e e2\n")
        pr.write("a.do", "sleep 0.4\nredo-ifchange c\nredo c2\n")
        pr.write("b.do", "redo-ifchange c\nsleep 4.5\n")
        pr.write("b2.do", "redo-ifchange c2\nsleep 4.5\n")
        pr.write("e.do", "sleep 4.5\n")
        pr.write("e2.do", "sleep 4.5\n")
        pr.write("c.do", "if [ ! -e $2.once ]; then : > $2.once; sleep 1.2; fi\n")
        pr.write("c2.do", "if [ ! -e $2.once ]; then : > $2.once; sleep 2.4; fi\n")
        r = sched.run_cmds(pr, [["redo", "-j3", "top"]], timeout=90)[0]
        stats["runs"] += 1
        ncheat = sum(1 for e in r.trace if e[2] == "js.cheat")
        # the situation aimed at: some process notices a child's exit while it has a cheat outstanding (js.childexit … cheats=1)
        met = sum(1 for e in r.trace if e[2] == "js.childexit" and e[3] and e[3][-1] == "1")
        stats["cheater_meets_iou"] = dict(cheats=ncheat, child_exits_with_own_cheat_outstanding=met)
        problems = []
        if r.timed_out:
            problems.append("run did not finish within 90 s")
        if r.rc != 0:
            problems.append("`redo -j3 top` exited %d although every script succeeds" % r.rc)
        m = re.search(r"panicked at [^\n]*\n[^\n]*", r.err)
        if m:
            problems.append("a redo process aborted: " + m.group(0).replace("\n", " "))
        if "on exit: expected" in r.err:
            problems.append("the jobserver owner did not end with the tokens it started with: " + re.search(r"on exit: expected[^\n]*", r.err).group(0))
        rep = sched.replay_tokens(r.trace)
        for grp, ans, nev in rep:
            stats["events"] += nev
            stats["groups"] += 1
            if not ans.startswith("ok"):
                problems.append("token trace rejected by the model (jobserver %s): %s" % (grp, ans))
        if problems:
            p = write_replay("C08", "cheater-meets-iou", dict(kind="impl-monitor+trace", problems=problems, stderr=r.err[-2000:], events=sched.token_groups(r.trace),
                                                              scenario="top.do: redo-ifchange a b b2 e e2.  a.do: sleep 0.4; redo-ifchange c; redo c2.  b.do: redo-ifchange c; sleep 4.5.  b2.do: redo-ifchange c2; sleep 4.5.  e.do, e2.do: sleep 4.5.  c.do: first run sleeps 1.2.  c2.do: first run sleeps 2.4.  redo -j3 top (log viewer on)"))
            viol.append(Violation("C08", p, "a process on a borrowed token whose child exits while another cheater's IOU is pending: " + "; ".join(problems)))
    finally:
        pr.destroy()


def start_failure_scenario(viol, stats, samples):
    """Error exit under a fault: a sub-redo that cannot start its job (a.do lowers the descriptor limit below the number
    `make_pipe` asks for, so `JobServerHandle::start` fails) exits with an error, a.do tolerates it, every script
    succeeds.  The token the sub-redo held must survive the failed start (before a5e14cf it was destroyed first and lost:
    `redo -j1 a b` waited for a token for b forever; at -j2 the build went on with one job less)."""
    for j in (1, 2):
        pr = Project()
        try:
            pr.write("a.do", 'ulimit -n 40\nredo-ifchange x || echo "start of x failed: $?" >>notes\n')
            pr.write("x.do", "echo x\n")
            pr.write("b.do", "echo b\n")
            pr.write("c.do", "echo c\n")
            r = sched.run_cmds(pr, [["redo", "-j%d" % j, "a", "b", "c"]], timeout=40)[0]
            stats["runs"] += 1
            notes = (pr.read("notes") or b"").decode()
            stats["start_failures"] = stats.get("start_failures", 0) + notes.count("start of x failed")
            problems = []
            if r.timed_out:
                problems.append("`redo -j%d a b c` did not finish within 40 s (waiting for a token that no longer exists?)" % j)
            elif r.rc != 0:
                problems.append("`redo -j%d a b c` exited %d although every script succeeds" % (j, r.rc))
            if "on exit: expected" in r.err:
                problems.append("the jobserver owner did not end with the tokens it started with: " + re.search(r"on exit: expected[^\n]*", r.err).group(0))
            rep = sched.replay_tokens(r.trace)
            for grp, ans, nev in rep:
                stats["events"] += nev
                stats["groups"] += 1
                if not ans.startswith("ok") and not r.timed_out:
                    problems.append("token trace rejected by the model (jobserver %s): %s" % (grp, ans))
            if problems:
                p = write_replay("C08", "start-failure-j%d" % j, dict(kind="impl-monitor+trace", problems=problems, stderr=r.err[-1500:], notes=notes, events=sched.token_groups(r.trace),
                                                                      scenario="a.do: ulimit -n 40; redo-ifchange x || note.  x.do, b.do, c.do: echo.  redo -j%d a b c" % j))
                viol.append(Violation("C08", p, "a job that cannot be started (descriptor limit) under -j%d: %s" % (j, "; ".join(problems))))
                return
        finally:
            pr.destroy()


def makeflags_level(ctx, rng, viol):
    """The jobserver's wire format: `parse_makeflags` (hook verif_parse_makeflags) against `Makeflags.parse` on token
    sequences around the two option spellings, and the value a real `redo -jN` exports to its scripts against
    `Makeflags.format` (C08.roundtrip is about exactly that string)."""
    import itertools
    thorough = ctx["tier"] == "thorough"
    toks = [" ", "--jobserver-auth=", "--jobserver-fds=", "3", "4", ",", "-", "+", "x", "-j", "12", "é"]
    strs = ["".join(t) for n in range(0, 5 if thorough else 4) for t in itertools.product(toks[:8], repeat=n)]
    extra = ["2147483647,2147483648", "-2147483648,007", "+5,+6", "3,4,5", "3, 4", ",", "3,", ",4", " 3,4", "99999999999,1", "--jobserver-auth", "=3,4", "３,4", "3\t,4"]
    for _ in range(60000 if thorough else 6000):
        k = rng.randint(1, 9)
        strs.append("".join(rng.choice(toks + extra) for _ in range(k)))
    # structured, mostly valid: [flags] option=INT,INT [flags], with a second option and small corruptions
    def num():
        r = rng.random()
        if r < 0.6:
            return str(rng.randint(0, 300))
        if r < 0.75:
            return rng.choice(["+", "-", "00", "-0"]) + str(rng.randint(0, 99))
        if r < 0.9:
            return str(rng.choice([2147483647, 2147483648, -2147483648, -2147483649, 4294967296, 10 ** 20]))
        return rng.choice(["", "x", "3x", " 3", "3 ", "0x10", "1e3", "٣"])
    def opt():
        o = rng.choice(["--jobserver-auth=", "--jobserver-fds="]) + num() + rng.choice([",", ",", ",", ",", "", ";", ",,"]) + num()
        return o if rng.random() < 0.9 else o.replace("--", "-", 1)
    flagw = ["-j", "-k", "-j3", "--", "-w", "--no-print-directory", "k", "é=1", "--jobserver-auth", "--jobserver-fds"]
    for _ in range(40000 if thorough else 4000):
        parts = [rng.choice(flagw) for _ in range(rng.randint(0, 2))] + [opt()]
        if rng.random() < 0.35:
            parts += [rng.choice(flagw)] * rng.randint(0, 1) + [opt()]
        parts += [rng.choice(flagw) for _ in range(rng.randint(0, 2))]
        sep = rng.choice([" ", " ", " ", "  ", "\t"])
        strs.append(rng.choice(["", " ", ""]) + sep.join(parts) + rng.choice(["", " ", ""]))
    for e in extra:
        strs += ["--jobserver-auth=" + e, "-j --jobserver-fds=" + e + " -k", "--jobserver-fds=1,2 --jobserver-auth=" + e]
    strs = sorted(set(strs))
    lines = ["makeflags " + hx(x) for x in strs]
    diffs, m, impl = diff_lines(lines)
    stats = dict(strings=len(lines), absent=sum(1 for a in m if a == "absent"), fds=sum(1 for a in m if a.startswith("fds")), invalid=sum(1 for a in m if a == "invalid"), exported=0)
    if diffs:
        l, a, b = min(diffs, key=lambda d: len(d[0]))
        x = unhx(l.split()[1]).decode()
        p = write_replay("C08", "makeflags-corr", dict(kind="model-vs-impl", layer="Makeflags.parse", MAKEFLAGS=x, model=a, impl=b, count=len(diffs)))
        # failing input: what this redo itself would export must come back as the same descriptors
        back = run_lines(RH, ["makeflags " + hx(" -j --jobserver-auth=%d,%d --jobserver-fds=%d,%d" % (r, w, r, w)) for r, w in ((3, 4), (100, 101), (7, 12))])
        bad = [b2 for b2, want in zip(back, ("fds 3 4", "fds 100 101", "fds 7 12")) if b2 != want]
        viol.append(Violation("C08", p, "MAKEFLAGS %r: model %s, implementation %s%s" % (x, a, b, "; a child of redo would not find its parent's jobserver: %s" % bad[0] if bad else ""), no_input=not bad))
        return stats
    # what a real top-level redo exports
    pr = Project()
    try:
        pr.write("x.do", 'printf "%s" "$MAKEFLAGS" >mf\nredo-ifchange y\n')
        pr.write("y.do", 'printf "%s" "$MAKEFLAGS" >mf2\n')
        for j in (2, 5):
            r = sched.run_cmds(pr, [["redo", "-j%d" % j, "x"]], timeout=30)[0]
            mf, mf2 = (pr.read("mf") or b"").decode(), (pr.read("mf2") or b"").decode()
            ans = run_lines(MODEL, ["makeflags " + hx(mf)])[0]
            problems = []
            if r.rc != 0:
                problems.append("redo -j%d failed (%d)" % (j, r.rc))
            if not ans.startswith("fds "):
                problems.append("the exported MAKEFLAGS %r does not name a jobserver (model: %s)" % (mf, ans))
            else:
                a, b = ans.split()[1:]
                fm = unhx(run_lines(MODEL, ["makeflags-format %s %s" % (a, b)])[0]).decode()
                if fm != mf:
                    problems.append("exported MAKEFLAGS %r, Makeflags.format gives %r" % (mf, fm))
            if mf2 != mf:
                problems.append("a nested redo-ifchange changed MAKEFLAGS: %r -> %r" % (mf, mf2))
            stats["exported"] += 1
            if problems:
                p = write_replay("C08", "makeflags-export", dict(kind="model-vs-impl", layer="Makeflags.format", j=j, exported=mf, nested=mf2, problems=problems, stderr=r.err[-600:]))
                viol.append(Violation("C08", p, "; ".join(problems)))
                break
    finally:
        pr.destroy()
    return stats


def run(ctx):
    rng = random.Random(ctx["seed"] * 31 + 8)
    viol = ctx.setdefault("violations", [])
    thorough = ctx["tier"] == "thorough"
    mfstats = makeflags_level(ctx, random.Random(ctx["seed"] * 77 + 8), viol)
    n = 120 if thorough else 26
    stats = dict(runs=0, events=0, groups=0, own=0, inherited=0, failing=0, with_log=0, max_overlap=0, cheats=0)
    samples = []
    known_hit = []
    stats["makeflags"] = mfstats
    for i in range(n if not viol else 0):
        kind = rng.choice(["plain", "plain", "fail", "features"])
        g = scenario(rng, kind, i)
        j = rng.choice([1, 2, 2, 3, 4])
        log = rng.random() < 0.5
        inherited = rng.random() < 0.35
        rebuild = rng.random() < 0.3
        pr = Project()
        ext = None
        try:
            sched.write_project(pr, g)
            argvs = []
            env = {}
            fds = ()
            if inherited:
                ext = sched.ExtJobserver(j - 1)       # the process itself counts as one
                env = ext.env()
                fds = ext.fds()
                argv = ["redo-ifchange", "all"] if rng.random() < 0.5 else ["redo", "all"]
                if not log:
                    env["REDO_LOG"] = "0"
            else:
                argv = ["redo", "-j%d" % j] + ([] if log else ["--no-log"]) + (["-k"] if rng.random() < 0.3 else []) + ["all"]
            runs = [argv]
            if rebuild:
                runs.append(argv)
            for k, a in enumerate(runs):
                if k == 1:
                    pr.write("touch.src", "x")
                r = sched.run_cmds(pr, [a], env=env, timeout=60, pass_fds=fds)[0]
                stats["runs"] += 1
                stats["own" if not inherited else "inherited"] += 1
                stats["with_log"] += 1 if log else 0
                if r.rc != 0:
                    stats["failing"] += 1
                rep = sched.replay_tokens(r.trace, ext_pipe=(j - 1) if inherited else 0)
                ov = sched.max_overlap(r.work)
                stats["max_overlap"] = max(stats["max_overlap"], ov)
                stats["cheats"] += sum(1 for e in r.trace if e[2] == "js.cheat")
                desc = dict(graph={k2: v["deps"] for k2, v in g.items()}, j=j, log=log, inherited=inherited, argv=a, rc=r.rc, kind=kind)
                for grp, ans, nev in rep:
                    stats["events"] += nev
                    stats["groups"] += 1
                    if not ans.startswith("ok"):
                        gs = sched.token_groups(r.trace)
                        p = write_replay("C08", "trace-%d" % i, dict(kind="trace-rejected-by-model", scenario=desc, answer=ans, events=gs.get(grp), stderr=r.err[-1500:],
                                                                      scripts={k2: pr.read(k2 + ".do").decode() for k2 in list(g)[:12]}))
                        failing = "guard" in ans and ("exit" in ans or "forcereturn" in ans or "out_of_nothing" in ans or "selftest" in ans)
                        viol.append(Violation("C08", p, "token trace of `%s` rejected by the model: %s" % (" ".join(a), ans), no_input=not failing))
                        break
                if viol:
                    break
                # implementation monitors
                problems = []
                if r.timed_out:
                    problems.append("run did not finish within 60 s")
                if "on exit: expected" in r.err:
                    problems.append("top-level self-test failed: " + re.search(r"on exit: expected[^\n]*", r.err).group(0))
                if inherited:
                    left = ext.count()
                    os.write(ext.w, b"+" * left)
                    if left != j - 1:
                        problems.append("inherited jobserver pipe holds %d tokens after the run, %d before" % (left, j - 1))
                if ov > j + (1 if log else 0):
                    problems.append("%d scripts were working at the same time with -j%d" % (ov, j))
                if problems:
                    p = write_replay("C08", "impl-%d" % i, dict(kind="impl-monitor", scenario=desc, problems=problems, stderr=r.err[-1500:],
                                                                 scripts={k2: pr.read(k2 + ".do").decode() for k2 in list(g)[:12]}))
                    viol.append(Violation("C08", p, "; ".join(problems) + " (%s)" % " ".join(a)))
                    break
                if len(samples) < 2 and rep:
                    gs = sched.token_groups(r.trace)
                    samples.append(dict(scenario=desc, answer=rep[0][1], first_events=list(gs.values())[0][:14]))
            if viol:
                break
        finally:
            if ext:
                ext.close()
            pr.destroy()
    if not viol:
        cheat_scenarios(viol, stats, samples)
    if not viol:
        lock_wait_scenarios(random.Random(ctx["seed"] * 131 + 8), viol, stats, samples)
    if not viol:
        nested_j_scenarios(random.Random(ctx["seed"] * 137 + 8), viol, stats, samples)
    if not viol:
        nested_after_iou_scenarios(viol, stats, samples)
    if not viol:
        cheater_meets_iou_scenario(viol, stats, samples)
    if not viol:
        start_failure_scenario(viol, stats, samples)
    if not viol:
        cheater_is_last_child_scenario(viol, stats, samples)
    return dict(evaluations=stats["events"], distinct_nontrivial=stats["runs"],
                rule="MAKEFLAGS strings (all sequences of up to 3 tokens over the option spellings, digits, signs, commas, blanks; seeded longer ones; i32 boundary values) through the real parser and the model, and the value a real redo -jN exports against Makeflags.format; two directed scenarios for the borrowed-token path (followed job waits for a locked target, wakes up with no token free, cheats; then exits with the loan / releases it again) under an inherited jobserver; three directed lock-contention runs under an inherited jobserver (two concurrent top-level commands want the same target; the waiter has all its slots busy first, gives up its token, blocks on the lock; the other build fails / completes the target; k = 0..2 tokens in the pipe, redo / redo-ifchange, -k, with and without log): pipe contents afterwards, model replay, final model pipe and IOU count; two nested `redo -jM sub` runs (M = 1..2) inside `redo -jN` / an inherited jobserver of N-1 tokens (N = 4..5; fan and diamond sub-graphs of 5-6 recording scripts): overlap of the sub-build's work sections <= M (+1 with log), overall <= N, outer tokens conserved, every jobserver's trace replayed; seeded random build graphs (3-9 targets; chains, fans, diamonds, layers; failing, checksummed, always targets) built at -j1..4 with own or inherited (MAKEFLAGS) jobserver, with and without log capture, first build and rebuild; every primitive token event of every process is replayed by the Lean acceptor; distinct = runs",
                samples=samples, traces_validated_against_impl=stats["groups"], disagreements_checked=stats["events"], distribution=dict(stats, per_process_counter_model_TokLoop=dict(sched.TOKLOOP_STATS)), known_hit=known_hit)
