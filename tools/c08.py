"""C08 — job tokens are conserved and -j is respected.
Correspondence: every run's primitive token events (hooks js.*) are replayed through the Lean acceptor
`Tokens.step`, which checks each event's (my_tokens, cheats) against the model and the guards the theorems
need.  Implementation monitors: bytes left in an inherited jobserver's pipe, the top-level self-test,
number of simultaneously working scripts."""
import random
from common import *
from proj import Project
import sched

ASSUMPTIONS = [
    "a pipe delivers each byte to exactly one reader; O_APPEND trace lines are atomic; release is logged before the bytes are written and read after they are taken, so file order is consistent with causality",
    "short writes / EINTR on the pipes are not modelled",
    "one acceptor instance per jobserver; splitting the trace by jobserver is done by tools/sched.py",
]


def scenario(rng, kind, idx):
    g = sched.gen_graph(rng, rng.randint(3, 9))
    if kind == "fail":
        for nm in rng.sample(sorted(g), max(1, len(g) // 4)):
            g[nm]["fail"] = True
    if kind == "features":
        for nm in g:
            if rng.random() < 0.3:
                g[nm]["stamp"] = True
            if rng.random() < 0.2:
                g[nm]["always"] = True
    return g


def cheat_scenarios(viol, stats, samples):
    """The borrowed-token ("cheat") path: a top-level `redo all` with the log viewer under an inherited jobserver
    owned by the harness.  The job the viewer follows gives up its token while it waits for a target locked by a
    sibling, finds no token free when it wakes up, borrows one, and (1) exits still holding it / (2) has to give it
    up again for a second locked target.  Afterwards the pipe must hold exactly the tokens it held before."""
    scen = [
        ("cheater exits with the borrowed token", 1,
         {"all": "redo-ifchange a b c d\n", "a": "sleep 0.3\nredo-ifchange s\necho a\n", "b": "redo-ifchange s\nsleep 1.6\necho b\n",
          "s": "sleep 0.9\necho s\n", "c": "sleep 2.4\necho c\n", "d": "sleep 0.2\necho d\n"}),
        ("cheater releases for a second locked target", 2,
         {"all": "redo-ifchange a b c d\n", "a": "sleep 0.3\nredo-ifchange s1 s2\necho a\n", "b": "redo-ifchange s1\nsleep 1.6\necho b\n",
          "c": "redo-ifchange s2\nsleep 1.2\necho c\n", "s1": "sleep 0.7\necho s1\n", "s2": "sleep 1.3\necho s2\n", "d": "sleep 2.0\necho d\n"}),
    ]
    spam = 'i=0\nwhile [ $i -lt 3000 ]; do echo "................................................................" >&2; i=$((i + 1)); done\n'
    scen[1][2]["a"] = spam + scen[1][2]["a"]
    for name, k, files in scen:
        pr = Project()
        ext = sched.ExtJobserver(k)
        try:
            for t, body in files.items():
                pr.write(t + ".do", body)
            if k == 1:
                r = sched.run_cmds(pr, [["redo", "all"]], env=ext.env(), timeout=60, pass_fds=ext.fds())[0]
            else:
                # keep the log viewer on `a`: nobody reads redo's output until everything is built, and a.do first
                # writes ~190 KB to stderr, so redo-log blocks in write() while it follows a (holding a's log lock)
                import subprocess, time as _t
                from proj import clean_env
                trace, work = pr.path(".verif-trace"), pr.path(".verif-work")
                e = clean_env(dict(REDO_VERIF_TRACE=trace, VERIF_WORK=work))
                e.update(ext.env())
                rfd, wfd = os.pipe()
                t0 = _t.time()
                pp = subprocess.Popen(["redo", "all"], cwd=pr.root, env=e, stdout=wfd, stderr=wfd, stdin=subprocess.DEVNULL, pass_fds=ext.fds(), start_new_session=True)
                os.close(wfd)
                while _t.time() - t0 < 40 and pp.poll() is None and not all(os.path.exists(pr.path(x)) for x in "abcd"):
                    _t.sleep(0.1)
                os.set_blocking(rfd, False)
                out = b""
                while pp.poll() is None and _t.time() - t0 < 60:
                    try:
                        out += os.read(rfd, 1 << 16)
                    except BlockingIOError:
                        _t.sleep(0.02)
                timed = pp.poll() is None
                if timed:
                    import signal
                    os.killpg(pp.pid, signal.SIGKILL)
                pp.wait()
                os.close(rfd)
                r = sched.Run(pp.returncode if not timed else -999, "", out.decode("utf-8", "replace")[-3000:], sched.parse_trace(trace), sched.parse_work(work), _t.time() - t0, timed)
            stats["runs"] += 1
            stats["inherited"] += 1
            stats["with_log"] += 1
            ncheat = sum(1 for e in r.trace if e[2] == "js.cheat")
            stats["cheats"] += ncheat
            stats["cheat_scenarios"] = stats.get("cheat_scenarios", 0) + 1
            left = ext.count()
            desc = dict(name=name, tokens_in_pipe_before=k, files=files, rc=r.rc, cheats=ncheat)
            problems = []
            if r.timed_out or r.rc != 0:
                problems.append("redo all exited %s" % r.rc)
            if left != k:
                problems.append("inherited jobserver pipe holds %d tokens after the run, %d before" % (left, k))
            rep = sched.replay_tokens(r.trace, ext_pipe=k)
            for grp, ans, nev in rep:
                stats["events"] += nev
                stats["groups"] += 1
                if not ans.startswith("ok"):
                    problems.append("token trace rejected by the model: " + ans)
            if problems:
                p = write_replay("C08", "cheat-%d" % k, dict(kind="impl-monitor+trace", scenario=desc, problems=problems, stderr=r.err[-1500:],
                                                           events=sched.token_groups(r.trace)))
                viol.append(Violation("C08", p, "%s: %s" % (name, "; ".join(problems))))
                return
            if ncheat and len(samples) < 3:
                samples.append(dict(scenario=desc, answer=rep[0][1] if rep else None))
        finally:
            ext.close()
            pr.destroy()


def makeflags_level(ctx, rng, viol):
    """The jobserver's wire format: `parse_makeflags` (hook verif_parse_makeflags) against `Makeflags.parse` on token
    sequences around the two option spellings, and the value a real `redo -jN` exports to its scripts against
    `Makeflags.format` (C08.roundtrip is about exactly that string)."""
    import itertools
    thorough = ctx["tier"] == "thorough"
    toks = [" ", "--jobserver-auth=", "--jobserver-fds=", "3", "4", ",", "-", "+", "x", "-j", "12", "é"]
    strs = ["".join(t) for n in range(0, 5 if thorough else 4) for t in itertools.product(toks[:8], repeat=n)]
    extra = ["2147483647,2147483648", "-2147483648,007", "+5,+6", "3,4,5", "3, 4", ",", "3,", ",4", " 3,4", "99999999999,1", "--jobserver-auth", "=3,4", "３,4", "3\t,4"]
    for _ in range(60000 if thorough else 6000):
        k = rng.randint(1, 9)
        strs.append("".join(rng.choice(toks + extra) for _ in range(k)))
    # structured, mostly valid: [flags] option=INT,INT [flags], with a second option and small corruptions
    def num():
        r = rng.random()
        if r < 0.6:
            return str(rng.randint(0, 300))
        if r < 0.75:
            return rng.choice(["+", "-", "00", "-0"]) + str(rng.randint(0, 99))
        if r < 0.9:
            return str(rng.choice([2147483647, 2147483648, -2147483648, -2147483649, 4294967296, 10 ** 20]))
        return rng.choice(["", "x", "3x", " 3", "3 ", "0x10", "1e3", "٣"])
    def opt():
        o = rng.choice(["--jobserver-auth=", "--jobserver-fds="]) + num() + rng.choice([",", ",", ",", ",", "", ";", ",,"]) + num()
        return o if rng.random() < 0.9 else o.replace("--", "-", 1)
    flagw = ["-j", "-k", "-j3", "--", "-w", "--no-print-directory", "k", "é=1", "--jobserver-auth", "--jobserver-fds"]
    for _ in range(40000 if thorough else 4000):
        parts = [rng.choice(flagw) for _ in range(rng.randint(0, 2))] + [opt()]
        if rng.random() < 0.35:
            parts += [rng.choice(flagw)] * rng.randint(0, 1) + [opt()]
        parts += [rng.choice(flagw) for _ in range(rng.randint(0, 2))]
        sep = rng.choice([" ", " ", " ", "  ", "\t"])
        strs.append(rng.choice(["", " ", ""]) + sep.join(parts) + rng.choice(["", " ", ""]))
    for e in extra:
        strs += ["--jobserver-auth=" + e, "-j --jobserver-fds=" + e + " -k", "--jobserver-fds=1,2 --jobserver-auth=" + e]
    strs = sorted(set(strs))
    lines = ["makeflags " + hx(x) for x in strs]
    diffs, m, impl = diff_lines(lines)
    stats = dict(strings=len(lines), absent=sum(1 for a in m if a == "absent"), fds=sum(1 for a in m if a.startswith("fds")), invalid=sum(1 for a in m if a == "invalid"), exported=0)
    if diffs:
        l, a, b = min(diffs, key=lambda d: len(d[0]))
        x = unhx(l.split()[1]).decode()
        p = write_replay("C08", "makeflags-corr", dict(kind="model-vs-impl", layer="Makeflags.parse", MAKEFLAGS=x, model=a, impl=b, count=len(diffs)))
        # failing input: what this redo itself would export must come back as the same descriptors
        back = run_lines(RH, ["makeflags " + hx(" -j --jobserver-auth=%d,%d --jobserver-fds=%d,%d" % (r, w, r, w)) for r, w in ((3, 4), (100, 101), (7, 12))])
        bad = [b2 for b2, want in zip(back, ("fds 3 4", "fds 100 101", "fds 7 12")) if b2 != want]
        viol.append(Violation("C08", p, "MAKEFLAGS %r: model %s, implementation %s%s" % (x, a, b, "; a child of redo would not find its parent's jobserver: %s" % bad[0] if bad else ""), no_input=not bad))
        return stats
    # what a real top-level redo exports
    pr = Project()
    try:
        pr.write("x.do", 'printf "%s" "$MAKEFLAGS" >mf\nredo-ifchange y\n')
        pr.write("y.do", 'printf "%s" "$MAKEFLAGS" >mf2\n')
        for j in (2, 5):
            r = sched.run_cmds(pr, [["redo", "-j%d" % j, "x"]], timeout=30)[0]
            mf, mf2 = (pr.read("mf") or b"").decode(), (pr.read("mf2") or b"").decode()
            ans = run_lines(MODEL, ["makeflags " + hx(mf)])[0]
            problems = []
            if r.rc != 0:
                problems.append("redo -j%d failed (%d)" % (j, r.rc))
            if not ans.startswith("fds "):
                problems.append("the exported MAKEFLAGS %r does not name a jobserver (model: %s)" % (mf, ans))
            else:
                a, b = ans.split()[1:]
                fm = unhx(run_lines(MODEL, ["makeflags-format %s %s" % (a, b)])[0]).decode()
                if fm != mf:
                    problems.append("exported MAKEFLAGS %r, Makeflags.format gives %r" % (mf, fm))
            if mf2 != mf:
                problems.append("a nested redo-ifchange changed MAKEFLAGS: %r -> %r" % (mf, mf2))
            stats["exported"] += 1
            if problems:
                p = write_replay("C08", "makeflags-export", dict(kind="model-vs-impl", layer="Makeflags.format", j=j, exported=mf, nested=mf2, problems=problems, stderr=r.err[-600:]))
                viol.append(Violation("C08", p, "; ".join(problems)))
                break
    finally:
        pr.destroy()
    return stats


def run(ctx):
    rng = random.Random(ctx["seed"] * 31 + 8)
    viol = ctx.setdefault("violations", [])
    thorough = ctx["tier"] == "thorough"
    mfstats = makeflags_level(ctx, random.Random(ctx["seed"] * 77 + 8), viol)
    n = 120 if thorough else 26
    stats = dict(runs=0, events=0, groups=0, own=0, inherited=0, failing=0, with_log=0, max_overlap=0, cheats=0)
    samples = []
    known_hit = []
    stats["makeflags"] = mfstats
    for i in range(n if not viol else 0):
        kind = rng.choice(["plain", "plain", "fail", "features"])
        g = scenario(rng, kind, i)
        j = rng.choice([1, 2, 2, 3, 4])
        log = rng.random() < 0.5
        inherited = rng.random() < 0.35
        rebuild = rng.random() < 0.3
        pr = Project()
        ext = None
        try:
            sched.write_project(pr, g)
            argvs = []
            env = {}
            fds = ()
            if inherited:
                ext = sched.ExtJobserver(j - 1)       # the process itself counts as one
                env = ext.env()
                fds = ext.fds()
                argv = ["redo-ifchange", "all"] if rng.random() < 0.5 else ["redo", "all"]
                if not log:
                    env["REDO_LOG"] = "0"
            else:
                argv = ["redo", "-j%d" % j] + ([] if log else ["--no-log"]) + (["-k"] if rng.random() < 0.3 else []) + ["all"]
            runs = [argv]
            if rebuild:
                runs.append(argv)
            for k, a in enumerate(runs):
                if k == 1:
                    pr.write("touch.src", "x")
                r = sched.run_cmds(pr, [a], env=env, timeout=60, pass_fds=fds)[0]
                stats["runs"] += 1
                stats["own" if not inherited else "inherited"] += 1
                stats["with_log"] += 1 if log else 0
                if r.rc != 0:
                    stats["failing"] += 1
                rep = sched.replay_tokens(r.trace, ext_pipe=(j - 1) if inherited else 0)
                ov = sched.max_overlap(r.work)
                stats["max_overlap"] = max(stats["max_overlap"], ov)
                stats["cheats"] += sum(1 for e in r.trace if e[2] == "js.cheat")
                desc = dict(graph={k2: v["deps"] for k2, v in g.items()}, j=j, log=log, inherited=inherited, argv=a, rc=r.rc, kind=kind)
                for grp, ans, nev in rep:
                    stats["events"] += nev
                    stats["groups"] += 1
                    if not ans.startswith("ok"):
                        gs = sched.token_groups(r.trace)
                        p = write_replay("C08", "trace-%d" % i, dict(kind="trace-rejected-by-model", scenario=desc, answer=ans, events=gs.get(grp), stderr=r.err[-1500:],
                                                                      scripts={k2: pr.read(k2 + ".do").decode() for k2 in list(g)[:12]}))
                        failing = "guard" in ans and ("exit" in ans or "forcereturn" in ans or "out_of_nothing" in ans or "selftest" in ans)
                        viol.append(Violation("C08", p, "token trace of `%s` rejected by the model: %s" % (" ".join(a), ans), no_input=not failing))
                        break
                if viol:
                    break
                # implementation monitors
                problems = []
                if r.timed_out:
                    problems.append("run did not finish within 60 s")
                if "on exit: expected" in r.err:
                    problems.append("top-level self-test failed: " + re.search(r"on exit: expected[^\n]*", r.err).group(0))
                if inherited:
                    left = ext.count()
                    os.write(ext.w, b"+" * left)
                    if left != j - 1:
                        problems.append("inherited jobserver pipe holds %d tokens after the run, %d before" % (left, j - 1))
                if ov > j + (1 if log else 0):
                    problems.append("%d scripts were working at the same time with -j%d" % (ov, j))
                if problems:
                    p = write_replay("C08", "impl-%d" % i, dict(kind="impl-monitor", scenario=desc, problems=problems, stderr=r.err[-1500:],
                                                                 scripts={k2: pr.read(k2 + ".do").decode() for k2 in list(g)[:12]}))
                    viol.append(Violation("C08", p, "; ".join(problems) + " (%s)" % " ".join(a)))
                    break
                if len(samples) < 2 and rep:
                    gs = sched.token_groups(r.trace)
                    samples.append(dict(scenario=desc, answer=rep[0][1], first_events=list(gs.values())[0][:14]))
            if viol:
                break
        finally:
            if ext:
                ext.close()
            pr.destroy()
    if not viol:
        cheat_scenarios(viol, stats, samples)
    return dict(evaluations=stats["events"], distinct_nontrivial=stats["runs"],
                rule="MAKEFLAGS strings (all sequences of up to 3 tokens over the option spellings, digits, signs, commas, blanks; seeded longer ones; i32 boundary values) through the real parser and the model, and the value a real redo -jN exports against Makeflags.format; two directed scenarios for the borrowed-token path (followed job waits for a locked target, wakes up with no token free, cheats; then exits with the loan / releases it again) under an inherited jobserver; seeded random build graphs (3-9 targets; chains, fans, diamonds, layers; failing, checksummed, always targets) built at -j1..4 with own or inherited (MAKEFLAGS) jobserver, with and without log capture, first build and rebuild; every primitive token event of every process is replayed by the Lean acceptor; distinct = runs",
                samples=samples, traces_validated_against_impl=stats["groups"], disagreements_checked=stats["events"], distribution=stats, known_hit=known_hit)
