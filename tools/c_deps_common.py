"""Per-property generator weights, monitor sets and assumptions for the Deps-level checks."""
ASSUMPTIONS = [
    "serial (-j1) engine; script determinism; sources not edited while a command runs",
    "a stamp changes whenever a file is rewritten (the harness writes through a new inode)",
    "SHA-1 equality = content equality on the data seen",
    "SQLite transactions are atomic; fcntl locks exclusive (kernel behaviour not verified)",
    "model/implementation agreement is established on the sampled histories of this run; the theorems quantify over all histories of the model",
]
FEATURES = {
    "C01": dict(stamp=0.35, always=0.15, fail=0.15, ifcreate=0.3, default=0.4),
    "C02": dict(stamp=0.15, always=0.1, fail=0.1, ifcreate=0.4, default=0.5, handedit2=0.08),
    "C03": dict(stamp=0.8, always=0.25, fail=0.05, ifcreate=0.1, default=0.2, editrm=0.07),
    "C05": dict(stamp=0.15, always=0.1, fail=0.55, exitfail=0.2, ifcreate=0.1, default=0.3),
    "C11": dict(stamp=0.2, always=0.1, fail=0.1, ifcreate=0.2, default=0.7, symlink=0.3, handedit2=0.1),
    "C14": dict(stamp=0.2, always=0.5, fail=0.05, ifcreate=0.8, default=0.2),
    "C17": dict(stamp=0.4, always=0.1, fail=0.2, ifcreate=0.3, default=0.4, editrm=0.08, handedit2=0.04),
}
NCASES = {"C01": 70, "C02": 60, "C03": 60, "C05": 60, "C11": 60, "C14": 60, "C17": 60}
WANT = {"C01": {"C01"}, "C02": {"C02", "C05"}, "C03": {"C03", "C01"}, "C05": {"C05"}, "C11": {"C11"}, "C14": {"C14"}, "C17": {"C17"}}
KNOWN = {}
