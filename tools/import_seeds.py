#!/usr/bin/env python3
"""Import sub-agent seeds from /tmp/mut/out/<id>/ into /verif/seeded/<id>/ after confirming each in a scratch worktree
(tools/confirm_seed.sh: applies, builds, test suite passes, demo fails with / passes without).  usage: import_seeds.py C01 C02 …"""
import glob, json, os, re, shutil, subprocess, sys
V = os.path.dirname(os.path.dirname(os.path.abspath(__file__)))
props = {json.loads(l)["id"]: json.loads(l) for l in open(os.path.join(V, "properties.jsonl"))}
RND = os.environ.get("SEED_ROUND", "2")
head = subprocess.run(["git", "-C", "/repo", "log", "--format=%h", "-1"], capture_output=True, text=True).stdout.strip()
for pid in sys.argv[1:]:
    src = "%s/%s" % (os.environ.get("SEED_SRC", "/tmp/mut/out"), pid)
    d = os.path.join(V, "seeded", pid)
    os.makedirs(d, exist_ok=True)
    mp = os.path.join(d, "meta.json")
    meta = json.load(open(mp)) if os.path.exists(mp) else dict(property=pid, title=props[pid]["title"], changes=[])
    used = [int(re.search(r"patch(\d*)\.diff", c["patch"]).group(1) or 1) for c in meta["changes"]]
    nxt = max(used + [0]) + 1
    for patch in sorted(glob.glob(src + "/patch*.diff")):
        k = re.search(r"patch(\d*)\.diff", patch).group(1)
        demo = os.path.join(src, "demo%s.sh" % k)
        if not os.path.exists(demo):
            print("no demo for", patch); continue
        out = "/tmp/cs/out/%s-new%s.json" % (pid, k or "1")
        os.makedirs("/tmp/cs/out", exist_ok=True)
        subprocess.run(["bash", os.path.join(V, "tools", "confirm_seed.sh"), pid, patch, demo, out], stdout=subprocess.DEVNULL, stderr=subprocess.DEVNULL)
        c = json.load(open(out))
        ok = c["applies"] and c["build_rc"] == 0 and c["tests_passed_failed"].endswith(" 0") and c["demo_rc_with_patch"] not in (0, 99) and c["demo_rc_without_patch"] == 0
        print(pid, os.path.basename(patch), "CONFIRMED" if ok else "NOT CONFIRMED", c)
        if not ok:
            continue
        name = "patch%d.diff" % nxt
        shutil.copy(patch, os.path.join(d, name))
        shutil.copy(demo, os.path.join(d, "demo%d.sh" % nxt))
        notes = open(os.path.join(src, "notes.md")).read() if os.path.exists(os.path.join(src, "notes.md")) else ""
        with open(os.path.join(d, "notes.md"), "a") as f:
            f.write("\n\n---\n# Round %s (base %s): %s = the sub-agent's %s\n\n%s\n" % (RND, head, name, os.path.basename(patch), notes if k in ("", None) or not os.path.exists(os.path.join(d, "notes.round%s.done" % RND)) else "(see above)"))
        open(os.path.join(d, "notes.round%s.done" % RND), "w").close()
        meta["changes"].append(dict(patch=name, demo="demo%d.sh" % nxt, breaks=pid, origin="fresh sub-agent, round %s, base %s (given only the property text and a scratch worktree)" % (RND, head),
            needs="see notes.md (Round %s, %s)" % (RND, os.path.basename(patch)),
            confirmed=dict(how="tools/confirm_seed.sh in a scratch worktree of /repo HEAD: git apply; cargo test --workspace --no-fail-fast --offline; demo with patch; demo without patch",
                           tests_passed_failed=c["tests_passed_failed"], demo_rc_with_patch=c["demo_rc_with_patch"], demo_rc_without_patch=c["demo_rc_without_patch"]),
            detected_by=None))
        nxt += 1
    for f in glob.glob(os.path.join(d, "notes.round%s.done" % RND)):
        os.unlink(f)
    json.dump(meta, open(mp, "w"), indent=1)
