#!/bin/bash
# Run the registered checks against every seeded change, in an isolated copy of the repository.
# usage (from a snapshot):  vp run --with-repo -- tools/seed_matrix.sh [ids...]
# or locally:               VP_RUN_REPO=/path/to/scratch/clone tools/seed_matrix.sh C04
set -u
cd "$(dirname "$0")/.."
REPO_COPY="${VP_RUN_REPO:?need a scratch repository copy}"
export VERIF_REPO="$REPO_COPY"
OUT="${MATRIX_OUT:-/tmp/seed_matrix.$$.txt}"
./check --setup >/dev/null 2>&1
IDS="${*:-$(ls seeded)}"
for id in $IDS; do
  for p in seeded/$id/patch*.diff; do
    [ -f "$p" ] || continue
    if ! git -C "$REPO_COPY" apply "$PWD/$p" 2>/dev/null; then echo "$id $(basename $p) DOES-NOT-APPLY" | tee -a "$OUT"; continue; fi
    RES=$(./check $id --tier quick 2>/dev/null | grep -E "^VIOLATION" | head -1)
    git -C "$REPO_COPY" checkout -- . ; git -C "$REPO_COPY" clean -fdq
    echo "$id $(basename $p) ${RES:-MISSED}" | tee -a "$OUT"
  done
done
echo "MATRIX-DONE $OUT"
