#!/bin/bash
# Run the registered checks against every seeded change, in an isolated copy of the repository.
# For each change: first the check of the property it was written against; when that misses, every other check
# until one raises an alarm (a change usually breaks several properties).
# usage (from a snapshot):  vp run --with-repo -- tools/seed_matrix.sh [ids...]
set -u
cd "$(dirname "$0")/.."
REPO_COPY="${VP_RUN_REPO:?need a scratch repository copy}"
export VERIF_REPO="$REPO_COPY"
OUT="${MATRIX_OUT:-/tmp/seed_matrix.$$.txt}"
./check --setup >/dev/null 2>&1
ALL="C01 C02 C03 C04 C05 C06 C07 C08 C09 C10 C11 C12 C13 C14 C15 C16 C17 C18"
IDS="${*:-$(ls seeded)}"
for id in $IDS; do
  if [ -n "${SEED_ONLY_ROUND:-}" ]; then
    # only the changes of one seeding round (origin recorded in meta.json)
    PATCHES=$(python3 -c "import json,sys; m=json.load(open('seeded/$id/meta.json')); print(' '.join('seeded/$id/'+c['patch'] for c in m['changes'] if 'round ${SEED_ONLY_ROUND},' in c.get('origin','')))")
  else
    PATCHES=$(ls seeded/$id/patch*.diff)
  fi
  for p in $PATCHES; do
    [ -f "$p" ] || continue
    if ! git -C "$REPO_COPY" apply "$PWD/$p" 2>/dev/null; then echo "$id $(basename $p) DOES-NOT-APPLY" | tee -a "$OUT"; continue; fi
    RES=$(./check $id --tier quick 2>/dev/null | grep -E "^VIOLATION" | head -1)
    if [ -z "$RES" ]; then
      for other in $ALL; do
        [ "$other" = "$id" ] && continue
        R2=$(./check $other --tier quick 2>/dev/null | grep -E "^VIOLATION" | head -1)
        if [ -n "$R2" ]; then RES="MISSED-BY-OWN-CHECK caught-by=$other $R2"; break; fi
      done
    fi
    git -C "$REPO_COPY" checkout -- . ; git -C "$REPO_COPY" clean -fdq
    echo "$id $(basename $p) ${RES:-MISSED-BY-ALL}" | tee -a "$OUT"
  done
done
echo "MATRIX-DONE $OUT"
