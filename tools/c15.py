"""C15 — every spelling of a path denotes the same target.
Correspondence: Paths layer (normpath / abs_path / relpath), model vs real library in-process;
property monitors on the implementation: idempotence, rejoin."""
import itertools, random
from common import *

ASSUMPTIONS = [
    "normpath is modelled at component level; byte-level equality with helpers::normpath is what this run's differential check establishes",
    "Path::canonicalize is a parameter of the model (idempotent, equal on equal directories); symlink resolution itself is the OS's",
    "paths are valid UTF-8 without NUL/newline (RedoPath's invariant)",
]


def gen_strings(alpha, maxlen):
    for n in range(maxlen + 1):
        for t in itertools.product(alpha, repeat=n):
            yield "".join(t)


def canon_table(p):
    """What Path::canonicalize answers for the directory part of the absolute path `p` and for each of its proper leading
    parts (as Path::components spells them): `;`-separated hex pairs `<path>=<canonical>`; `!` when none exists."""
    dn = p[:p.rfind("/") + 1]
    keys = [dn]
    cs = [c for c in dn.split("/") if c not in ("", ".")]
    for k in range(len(cs) - 1, -1, -1):
        keys.append("/" + "/".join(cs[:k]))
    out = []
    for k in keys:
        if os.path.exists(k):
            out.append("%s=%s" % (hx(k), hx(os.path.realpath(k))))
    return ";".join(out) or "!"


def symlink_level(ctx, rng, viol):
    """A real directory tree with symlinked directories: every spelling of one file, from every working
    directory, must give the same database key (relpath to the project base); model and implementation are also
    compared, with the OS canonicalisation fed to the model as a parameter."""
    from proj import Project
    pr = Project()
    stats = dict(spellings=0, cwds=0, files=0)
    try:
        for d in ("sub/deep", "sub/other", "lib", "lib2"):
            os.makedirs(pr.path(d))
        os.symlink("sub", pr.path("lnk"))
        os.symlink("../lib", pr.path("sub/up"))
        os.symlink(pr.path("sub/deep"), pr.path("abs"))
        files = ["sub/deep/out", "lib/x.o", "lib2/out", "top", "sub/other/z"]
        for f in files:
            pr.write(f, "x")
        base = pr.root
        missing_dirs = ("sub/new/gen.out", "lib/a/b/c.o")
        alias = {"sub/deep/out": ["sub/deep/out", "./sub//deep/out", "lnk/deep/out", "sub/../lnk/deep/out", "abs/out", "sub/other/../deep/out", "lnk/up/../sub/deep/out", "sub/up/../lnk/deep/./out"],
                 "lib/x.o": ["lib/x.o", "sub/up/x.o", "lnk/up/x.o", "lib2/../lib/x.o", "./lib/./x.o"],
                 "lib2/out": ["lib2/out", "lib/../lib2/out", "sub/up/../lib2/out"],
                 "top": ["top", "./top", "sub/../top", "lnk/../top", "lib/../top"],
                 "sub/other/z": ["sub/other/z", "lnk/other/z", "abs/../other/z"],
                 # directories that do not exist yet (a script will create them): below a symlinked directory the name must
                 # still be the one through the real path
                 "sub/new/gen.out": ["sub/new/gen.out", "lnk/new/gen.out", "abs/../new/gen.out", "sub/deep/../new/gen.out", "lnk/newer/../new/./gen.out"],
                 "lib/a/b/c.o": ["lib/a/b/c.o", "sub/up/a/b/c.o", "lnk/up/a/b/c.o", "lib2/../lib/a//b/c.o", "sub/up/a/x/../b/c.o"]}
        cwds = ["", "sub", "sub/deep", "lib", "lnk", "lnk/deep", "abs"]
        stats["cwds"] = len(cwds)
        for f, sps in alias.items():
            stats["files"] += 1
            want = f
            for cwd in cwds:
                cwdp = os.path.join(base, cwd) if cwd else base
                reqs, meta = [], []
                for sp in sps:
                    for form in ("abs", "rel", "raw"):
                        if form == "abs":
                            t = os.path.join(base, sp)
                        elif form == "raw":
                            # the spelling itself, uncleaned (`..` after a symlinked directory stays), reached from this cwd
                            up = os.path.relpath(base, os.path.realpath(cwdp))
                            t = sp if up == "." else up + "/" + sp
                        else:
                            # a relative spelling valid from this cwd (lexically from the real cwd)
                            t = os.path.relpath(os.path.join(base, sp), os.path.realpath(cwdp))
                            if os.path.realpath(os.path.join(cwdp, os.path.dirname(t) or ".")) != os.path.realpath(os.path.dirname(os.path.join(base, sp)) or base):
                                continue
                        reqs.append("relpath-real %s %s" % (hx(t), hx(base)))
                        meta.append((t, form))
                got = run_lines(RH, reqs, cwd=cwdp)
                stats["spellings"] += len(reqs)
                for (t, form), g in zip(meta, got):
                    key = unhx(g).decode() if not g.startswith("err") else g
                    if key != want:
                        p = write_replay("C15", "symlink", dict(kind="impl-monitor", clause="every spelling denotes one database record", file=f, spelling=t, cwd=cwd or ".", key=key, expected=want,
                                                                tree="sub/deep sub/other lib lib2; lnk->sub, sub/up->../lib, abs-><root>/sub/deep"))
                        viol.append(Violation("C15", p, "spelling %r (cwd %s) of %s gets database key %r, expected %r" % (t, cwd or ".", f, key, want)))
                        return stats
                # model vs implementation with the OS's canonicalisation as parameter
                mreqs = []
                for (t, form) in meta:
                    cw = os.path.realpath(cwdp)
                    tabs = t if t.startswith("/") else (cw + "/" + t)
                    mreqs.append("relpath-full %s %s %s %s %s" % (hx(cw), hx(t), hx(base), canon_table(tabs), canon_table(base)))
                mans = run_lines(MODEL, mreqs)
                for (t, form), g, m, q in zip(meta, got, mans, mreqs):
                    if g != m:
                        p = write_replay("C15", "symlink-corr", dict(kind="model-vs-impl", layer="Paths.relpath", request=q, spelling=t, cwd=cwd or ".", model=m, impl=g))
                        viol.append(Violation("C15", p, "relpath(%r) from %s: model %r, implementation %r" % (t, cwd or ".", unhx(m).decode() if m != "bad-op" else m, unhx(g).decode()), no_input=True))
                        return stats
    finally:
        pr.destroy()
    return stats


def process_level(ctx, rng, viol):
    """Pairs of spellings of one target on one command line, at -j1 and -j2: one record, one lock, one build."""
    import sqlite3
    from proj import Project
    stats = dict(commands=0)
    sps = ["sub/deep/out", "./sub//deep/out", "lnk/deep/out", "sub/../lnk/deep/out", "@ROOT@/lnk/deep/out", "sub/other/../deep/out"]
    pairs = [(a, b) for i, a in enumerate(sps) for b in sps[i + 1:]]
    if ctx["tier"] != "thorough":
        pairs = rng.sample(pairs, 5)
    for a, b in pairs:
        for argv0, j in (("redo-ifchange", None), ("redo", "-j2")):
            pr = Project()
            try:
                os.makedirs(pr.path("sub/deep"))
                os.makedirs(pr.path("sub/other"))
                os.symlink("sub", pr.path("lnk"))
                pr.write("sub/deep/out.do", 'echo run >>"$VERIF_COUNT"\nsleep 0.15\necho built\n')
                cnt = pr.path(".count")
                argv = [argv0] + ([j] if j else []) + [a.replace("@ROOT@", pr.root), b.replace("@ROOT@", pr.root)]
                rc, out, err = pr.run(argv, env={"VERIF_COUNT": cnt}, timeout=40)
                stats["commands"] += 1
                runs = len(open(cnt).read().split()) if os.path.exists(cnt) else 0
                db = sqlite3.connect("file:%s?mode=ro" % pr.path(".redo/db.sqlite3"), uri=True)
                rows = [r[0] for r in db.execute("select name from Files where name like '%out'")]
                db.close()
                problems = []
                if rc != 0:
                    problems.append("exit %d" % rc)
                if "panicked" in err:
                    problems.append("a redo process aborted")
                if runs != 1:
                    problems.append("the script ran %d times" % runs)
                if rows != ["sub/deep/out"]:
                    problems.append("database records %r" % rows)
                if pr.read("sub/deep/out") != b"built\n":
                    problems.append("target not installed")
                if problems:
                    p = write_replay("C15", "twospell", dict(kind="impl-monitor", argv=argv, problems=problems, stderr=err[-1200:]))
                    viol.append(Violation("C15", p, "`%s`: %s" % (" ".join(argv).replace(pr.root, "<root>"), "; ".join(problems))))
                    return stats
            finally:
                pr.destroy()
    return stats


def fs_semantics_level(ctx, rng, viol):
    """The symlink-free file-system semantics of `C15.preserves` (Lemmas/PathsSem.lean: Tree, resolveStrict) against
    the real file system: generated directory trees (every directory holds a uniquely named marker, at most one plain
    file `f`), every directory as cwd, generated paths with `.`, `..`, doubled and trailing slashes, missing names and
    files used as directories.  Compared: resolves or not, and which node.  Also the monitor of the clause itself on
    the implementation: whenever `p` resolves, `normpath p` (the real function) resolves to the same node."""
    import tempfile, shutil
    thorough = ctx["tier"] == "thorough"
    stats = dict(trees=0, requests=0, resolved=0, preserved_checked=0)
    for _ in range(12 if thorough else 3):
        root = os.path.realpath(tempfile.mkdtemp(prefix="redo-verif-fs-"))
        try:
            dirs, files, mid = [""], [], [0]
            def grow(d, depth):
                for nm in rng.sample(["a", "b", "c", "a.b", "é"], rng.randint(0, 3)):
                    sub = d + "/" + nm
                    dirs.append(sub)
                    if depth < 3 and rng.random() < 0.7:
                        grow(sub, depth + 1)
            grow("", 0)
            alld, allf = [], []
            for d in dirs:
                os.makedirs(root + d, exist_ok=True)
                mid[0] += 1
                m = d + "/m%d" % mid[0]
                os.makedirs(root + m)
                alld += [d, m] if d else [m]
                if rng.random() < 0.5:
                    open(root + d + "/f", "w").close()
                    allf.append(d + "/f")
            marker = {}
            for d in [""] + [x for x in alld if x]:
                marker[os.path.realpath(root + d)] = sorted(os.listdir(root + d))
            reqs, meta = [], []
            comps_pool = ["a", "b", "c", "a.b", "é", ".", "..", "f", "", "zz", "m1", "m2"]
            for cwd in dirs:
                for _ in range(40 if thorough else 25):
                    k = rng.randint(1, 6)
                    # a guided walk: mostly existing names from where the walk currently is, with noise
                    absolute = rng.random() < 0.3
                    pos = [] if absolute else [c for c in cwd.split("/") if c]
                    parts = []
                    for _i in range(k):
                        q = rng.random()
                        here = root + "/" + "/".join(pos)
                        kids = sorted(os.listdir(here)) if os.path.isdir(here) else []
                        if q < 0.55 and kids:
                            c = rng.choice(kids)
                            pos.append(c)
                        elif q < 0.72:
                            c = ".."
                            if pos:
                                pos.pop()
                        elif q < 0.82:
                            c = "."
                        elif q < 0.88:
                            c = ""
                        else:
                            c = rng.choice(comps_pool)
                            pos.append(c)
                        parts.append(c)
                    pth = "/".join(parts)
                    if absolute:
                        pth = "/" + pth
                    if rng.random() < 0.2:
                        pth += "/"
                    if not pth:
                        continue
                    reqs.append("resolve %s %s %s %s" % (",".join(hx(x) for x in alld) or "-", ",".join(hx(x) for x in allf) or "-", hx(cwd or "/"), hx(pth)))
                    meta.append((cwd, pth))
            model = run_lines(MODEL, reqs)
            normed = run_lines(RH, ["normpath " + hx(pth) for _, pth in meta])

            def real_resolve(cwd, pth):
                # absolute paths of the model are relative to the scratch root
                full = (root + pth) if pth.startswith("/") else os.path.join(root + cwd, pth)
                try:
                    st = os.stat(full)
                except (FileNotFoundError, NotADirectoryError):
                    return "none"
                rp = os.path.realpath(full)
                if not (rp == root or rp.startswith(root + "/")):
                    return "escaped"       # `..` above the scratch root: not comparable (the model's root is `/`)
                import stat as st_
                if st_.S_ISDIR(st.st_mode):
                    return "dir:" + ",".join(hx(x) for x in sorted(os.listdir(rp)))
                return "file:" + ",".join(hx(x) for x in sorted(os.listdir(os.path.dirname(rp))))
            for (cwd, pth), mres, np_ in zip(meta, model, normed):
                # `..` at the model's root stays at the root; below a scratch directory it would leave it: skip paths
                # that climb above the root lexically
                depth, esc = (0 if pth.startswith("/") else len([c for c in cwd.split("/") if c])), False
                for c in pth.split("/"):
                    if c == "..":
                        depth -= 1
                        if depth < 0:
                            esc = True
                            break
                    elif c not in ("", "."):
                        depth += 1
                if esc:
                    continue
                stats["requests"] += 1
                real = real_resolve(cwd, pth)
                if real != "none":
                    stats["resolved"] += 1
                if real != mres:
                    p = write_replay("C15", "fs-sem", dict(kind="model-vs-os", layer="PathsSem", cwd=cwd or "/", path=pth, model=mres, real=real, dirs=alld, files=allf))
                    viol.append(Violation("C15", p, "file-system semantics of the model differs from the real one for %r from %r: model %s, real %s" % (pth, cwd or "/", mres[:60], real[:60]), no_input=True))
                    return stats
                if real != "none":
                    cleaned = unhx(np_).decode("utf-8", "replace")
                    again = real_resolve(cwd, cleaned)
                    stats["preserved_checked"] += 1
                    if again != real:
                        p = write_replay("C15", "preserves", dict(kind="impl-monitor", clause="cleaning never changes which file a symlink-free path names", cwd=cwd or "/", path=pth, cleaned=cleaned, before=real, after=again))
                        viol.append(Violation("C15", p, "normpath(%r) = %r names a different file (from %r): %s vs %s" % (pth, cleaned, cwd or "/", real[:50], again[:50])))
                        return stats
            stats["trees"] += 1
        finally:
            shutil.rmtree(root, ignore_errors=True)
    return stats


def oob_other_dir_scenario(viol):
    """Names handed to the out-of-band rebuild (`redo-unlocked`, taken when a checksummed dependency is dirty) from a
    working directory that is not the running target's: (A) the script did `cd sub` and names `../mid`; (B) `out/x.res`
    is built by the parent directory's default.res.do.  After the source changes, each rebuild succeeds, gives the new
    content, runs gen.do once, and no record appears under a wrong name."""
    from proj import Project
    pr = Project()
    try:
        os.makedirs(pr.path("sub"))
        os.makedirs(pr.path("out"))
        pr.write("src", "one\n")
        pr.write("gen.do", "redo-ifchange src\necho gen >>trace\ncat src\nredo-stamp <src\n")
        pr.write("mid.do", "redo-ifchange gen\nsed 's/^/mid:/' gen\n")
        pr.write("top.do", "cd sub\nredo-ifchange ../mid\ncat ../mid\n")
        pr.write("default.res.do", "redo-ifchange mid\ncat mid\n")
        problems = []
        for t in ("top", "out/x.res"):
            rc, o, e = pr.run(["redo", t])
            if rc != 0:
                problems.append("first build of %s failed (%d)" % (t, rc))
        last = ""
        for t, val in (("top", "two"), ("out/x.res", "three")):
            time.sleep(0.05)
            pr.write("src", val + "\n")
            pr.write("trace", "")
            rc, o, e = pr.run(["redo", t])
            last = e
            if rc != 0:
                problems.append("`redo %s` failed (%d) after the source under a checksummed target changed" % (t, rc))
            got = (pr.read(t) or b"").decode().strip()
            if got != "mid:" + val:
                problems.append("%s holds %r, a fresh build gives %r" % (t, got, "mid:" + val))
            n = len((pr.read("trace") or b"").split())
            if n != 1:
                problems.append("gen.do ran %d times for `redo %s`" % (n, t))
        rc, o1, e = pr.run(["redo-targets"])
        rc, o2, e = pr.run(["redo-sources"])
        stray = sorted(set(l for l in (o1 + o2).split("\n") if l.startswith("sub/") or l.startswith("../") or l in ("out/gen", "out/mid", "out/src")))
        if stray:
            problems.append("records under wrong names: %s" % " ".join(stray))
        if problems:
            p = write_replay("C15", "oob-other-dir", dict(kind="impl-monitor", problems=problems, stderr=last[-800:],
                scenario="gen (redo-stamp) <- mid <- top (top.do: cd sub; redo-ifchange ../mid) and out/x.res (default.res.do in the parent directory); edit src; redo top; edit src; redo out/x.res"))
            viol.append(Violation("C15", p, "out-of-band rebuild from another working directory: " + "; ".join(problems[:3])))
    finally:
        pr.destroy()


def spellings_of_a_locked_target_scenario(viol):
    """One command names one file through several spellings (`slow ./slow sub/../slow $PWD/slow link/slow`) while another
    command is building it: one record, one lock and ONE build — the second command waits and then finds the target
    built; the script runs once for the first command and at most once for the second (a forced `redo`), never once per
    spelling."""
    import subprocess, time
    from proj import Project, clean_env
    pr = Project()
    try:
        os.makedirs(pr.path("sub"))
        os.makedirs(pr.path("real"))
        os.symlink(".", pr.path("link"))
        pr.write("slow.do", "echo ran >>slow.runs\n: >slow.started\nwhile [ ! -e release ]; do sleep 0.05; done\necho slow\n")
        p1 = subprocess.Popen(["redo", "slow"], cwd=pr.root, env=clean_env(), stdin=subprocess.DEVNULL, stdout=subprocess.PIPE, stderr=subprocess.PIPE, start_new_session=True)
        t0 = time.time()
        while not os.path.exists(pr.path("slow.started")) and time.time() - t0 < 20:
            time.sleep(0.05)
        sp = ["slow", "./slow", "sub/../slow", pr.path("slow"), "link/slow"]
        p2 = subprocess.Popen(["redo"] + sp, cwd=pr.root, env=clean_env(), stdin=subprocess.DEVNULL, stdout=subprocess.PIPE, stderr=subprocess.PIPE, start_new_session=True)
        time.sleep(1.0)
        pr.write("release", "")
        outs = []
        for p in (p1, p2):
            try:
                o, e = p.communicate(timeout=60)
            except subprocess.TimeoutExpired:
                p.kill()
                o, e = p.communicate()
            outs.append((p.returncode, e.decode("utf-8", "replace")[-600:]))
        runs = len((pr.read("slow.runs") or b"").split())
        problems = []
        if outs[0][0] != 0 or outs[1][0] != 0:
            problems.append("exit statuses %s and %s" % (outs[0][0], outs[1][0]))
        if runs > 2:
            problems.append("slow.do ran %d times: once for the first command and %d times for the five spellings of the second" % (runs, runs - 1))
        if problems:
            pth = write_replay("C15", "spellings-locked", dict(kind="impl-monitor", clause="every spelling of a path denotes the same target: one record, one lock, one build", spellings=[x.replace(pr.root, "$ROOT") for x in sp], runs=runs, commands=outs,
                                                               scenario="redo slow (script waits for a file); meanwhile redo slow ./slow sub/../slow $ROOT/slow link/slow (link -> .); then the file is created"))
            viol.append(Violation("C15", pth, "several spellings of a target that another command is building: " + "; ".join(problems)))
    finally:
        pr.destroy()


def base_discovery_scenario(viol):
    """Which project database a command uses must not depend on how its targets are spelled: with `.redo` in p/sub,
    `$ABS/p/other/../sub/x` and `../other/../sub/x` (run in p/sub) are the x of that project — no second `.redo`
    appears next to it, x has one record and is built once."""
    import sqlite3
    from proj import Project
    pr = Project()
    try:
        os.makedirs(pr.path("p/sub"))
        os.makedirs(pr.path("p/other"))
        pr.write("p/sub/x.do", 'echo run >>x.runs\necho hi\n')
        problems = []
        rc, o, e = pr.run(["redo-ifchange", "x"], cwd="p/sub")
        for sp in (pr.path("p/other/../sub/x"), "../other/../sub/x", "./../sub/x", pr.path("p/sub/../sub//x")):
            rc, o, e = pr.run(["redo-ifchange", sp], cwd="p/sub")
            if rc != 0:
                problems.append("redo-ifchange %s (in p/sub) exited %d" % (sp.replace(pr.root, "$ROOT"), rc))
        dbs = sorted(os.path.relpath(os.path.join(d, ".redo"), pr.root) for d, ds, fs in os.walk(pr.root) if ".redo" in ds)
        runs = len((pr.read("p/sub/x.runs") or b"").split())
        if dbs != ["p/sub/.redo"]:
            problems.append("project databases after the commands: %r (the first command created p/sub/.redo)" % dbs)
        if runs != 1:
            problems.append("x.do ran %d times" % runs)
        if problems:
            p = write_replay("C15", "base-discovery", dict(kind="impl-monitor", problems=problems, scenario="mkdir -p p/sub p/other; p/sub/x.do; cd p/sub; redo-ifchange x; redo-ifchange $ROOT/p/other/../sub/x; redo-ifchange ../other/../sub/x; …"))
            viol.append(Violation("C15", p, "the spelling of a target decides which project database is used: " + "; ".join(problems[:3])))
    finally:
        pr.destroy()


def base_canon_table(paths):
    """Union of canon_table over directory names (each given as the absolute directory plus a dummy final component)."""
    seen = {}
    for p in paths:
        t = canon_table(p)
        if t != "!":
            for e in t.split(";"):
                seen[e] = 1
    return ";".join(seen) or "!"


def base_level(ctx, rng, viol):
    """Project-base discovery, model vs implementation: random small trees with `.redo` directories placed at random
    levels and two symbolic links to directories (`lnk -> a`, `e/back -> ../a/b`), a random working directory, one to
    three existing source files named through random spellings (`..` through sibling directories, `.`, doubled slashes,
    absolute, through the links); `redo-ifchange` is run and the directory whose `.redo` then holds the database is
    compared with `Base.baseOf` (the OS's canonicalisation is a parameter of the model).  Model-free monitor: the same
    command with every target spelled by its physical absolute path, in an identical second tree, must use the same
    directory — which database a command uses must not depend on how its targets are spelled."""
    from proj import Project
    stats = dict(commands=0, with_dotdot=0, through_symlink=0, redo_above=0, created_new=0)
    dirs_all = ["", "a", "a/b", "a/b/c", "a/d", "e", "e/f"]
    links = {"lnk": "a", "e/back": "../a/b"}          # link -> destination (relative to the link's directory)
    via = {"a": ["lnk"], "a/b": ["lnk/b", "e/back"], "a/b/c": ["lnk/b/c", "e/back/c"], "a/d": ["lnk/d"]}

    def make_tree(pr, redos):
        for d in dirs_all:
            os.makedirs(pr.path(d), exist_ok=True)
            pr.write(os.path.join(d, "src.txt"), "x")
        for l, dst in links.items():
            os.symlink(dst, pr.path(l))
        for d in redos:
            os.makedirs(pr.path(d, ".redo"), exist_ok=True)

    def used_dirs(pr):
        have = sorted(os.path.relpath(d, pr.root) for d, ds, fs in os.walk(pr.root) if os.path.basename(d) == ".redo" and "db.sqlite3" in fs)
        return [os.path.dirname(h) for h in have]

    for i in range(60 if ctx["tier"] == "thorough" else 16):
        pr = Project()
        pr2 = Project()
        try:
            redos = [d for d in dirs_all if rng.random() < 0.25]
            make_tree(pr, redos)
            make_tree(pr2, redos)
            cwd = rng.choice(dirs_all)
            cwd_abs = pr.path(cwd) if cwd else pr.root
            tdirs = [rng.choice(dirs_all) for _ in range(rng.randint(1, 3))]
            sps, plain = [], []
            for td in tdirs:
                real = os.path.join(pr.root, td, "src.txt") if td else os.path.join(pr.root, "src.txt")
                plain.append(real)
                form = rng.random()
                if form < 0.2:
                    sp = real
                elif form < 0.4:
                    sp = os.path.relpath(real, cwd_abs)
                elif form < 0.7 and td in via:
                    # through a symbolic link to a directory, absolute or relative to the working directory
                    thr = os.path.join(pr.root, rng.choice(via[td]), "src.txt")
                    sp = thr if rng.random() < 0.5 else os.path.join(os.path.relpath(pr.root, cwd_abs), os.path.relpath(thr, pr.root))
                    stats["through_symlink"] += 1
                else:
                    # through a sibling directory and back, with noise
                    other = rng.choice([x for x in dirs_all if x])
                    up = os.path.relpath(pr.root, os.path.join(pr.root, other))
                    sp = os.path.join(pr.root if rng.random() < 0.5 else os.path.relpath(pr.root, cwd_abs), other, up, td, "." if rng.random() < 0.3 else "", "src.txt").replace("/./src", "//src" if rng.random() < 0.5 else "/./src")
                    stats["with_dotdot"] += 1
                sps.append(sp)
            rc, o, e = pr.run(["redo-ifchange"] + sps, cwd=cwd or ".")
            stats["commands"] += 1
            used = used_dirs(pr)
            # the same command with physical spellings in the twin tree
            rc2, o2, e2 = pr2.run(["redo-ifchange"] + [x.replace(pr.root, pr2.root) for x in plain], cwd=cwd or ".")
            used2 = used_dirs(pr2)
            shown = " ".join(x.replace(pr.root, "$ROOT") for x in sps)
            if rc == 0 and rc2 == 0 and used != used2:
                p = write_replay("C15", "base-spelling", dict(kind="impl-monitor", clause="every spelling of a path denotes the same target: one database record", cwd=cwd or ".", redo_dirs=redos, links=links,
                                                              spellings=[x.replace(pr.root, "$ROOT") for x in sps], physical=[x.replace(pr.root, "$ROOT") for x in plain], database_used=used, database_used_with_physical_spellings=used2))
                viol.append(Violation("C15", p, "project base depends on the spelling: `redo-ifchange %s` run in %s (.redo in %r; lnk -> a, e/back -> ../a/b) uses the database in %r, the same files named by their physical paths use %r" % (shown, cwd or ".", redos, used, used2)))
                return stats
            # what realdirpath asks the OS: the directory of every target as spelled (absolute), with a dummy final component
            ctab = base_canon_table([(os.path.dirname(sp) if sp.startswith("/") else os.path.join(cwd_abs, os.path.dirname(sp))).rstrip("/") + "/_" if os.path.dirname(sp) else cwd_abs + "/_" for sp in sps])
            req = "base-of %s %s %s %s" % (hx(cwd_abs), ",".join(hx(pr.path(d) if d else pr.root) for d in redos) or "-", ",".join(hx(x) for x in sps), ctab)
            m = run_lines(MODEL, [req])[0]
            want = unhx(m).decode() if m != "bad-op" else m
            want_rel = os.path.relpath(want, pr.root) if want.startswith("/") else want
            want_rel = "" if want_rel == "." else want_rel
            if want_rel in redos:
                stats["redo_above"] += 1
            else:
                stats["created_new"] += 1
            if rc != 0 or used != [want_rel]:
                p = write_replay("C15", "base-level", dict(kind="model-vs-impl", layer="Base.baseOf (Env::init)", request=req, cwd=cwd or ".", redo_dirs=redos, spellings=[x.replace(pr.root, "$ROOT") for x in sps],
                                                           model=want_rel or ".", implementation=used, rc=rc, stderr=e[-300:]))
                viol.append(Violation("C15", p, "project base: `redo-ifchange %s` run in %s with .redo in %r used the database in %r, the model says %r" % (shown, cwd or ".", redos, used, want_rel or "."), no_input=True))
                return stats
        finally:
            pr.destroy()
            pr2.destroy()
    return stats


def run(ctx):
    rng = random.Random(ctx["seed"])
    thorough = ctx["tier"] == "thorough"
    maxlen = 9 if thorough else 7
    strs = list(gen_strings("/.ab", maxlen))
    pool = ["a", "b", ".", "..", "", "...", "a.b", ".a", "é", "日本", "a b", " ", "..a", "a..", "x" * 40]
    nrand = 100000 if thorough else 4000
    for _ in range(nrand):
        k = rng.randint(1, 9)
        s = "/".join(rng.choice(pool) for _ in range(k))
        if rng.random() < 0.5:
            s = "/" + s
        if rng.random() < 0.2:
            s += "/"
        strs.append(s)
    lines = ["normpath " + hx(s) for s in strs]
    # abs_path on pairs
    pairs = [(rng.choice(strs[:5000]), rng.choice(strs[:5000])) for _ in range(20000 if thorough else 4000)]
    lines += ["abspath %s %s" % (hx(c), hx(p)) for c, p in pairs]
    # relpath on absolute paths below a directory that does not exist (lexical fallback of realdirpath)
    absr = []
    names = ["qa", "qb", "..", ".", "qa.x", ""]
    def rp():
        return "/" + "/".join(rng.choice(names) for _ in range(rng.randint(1, 6)))
    small = ["/" + "/".join(t) for n in range(1, 4) for t in itertools.product(["qa", "qb", ".."], repeat=n)]
    rel = [(t, b) for t in small for b in small] + [(rp(), rp()) for _ in range(30000 if thorough else 3000)]
    # relpath needs a final component for `t` whose directory part does not resolve on disk: guaranteed since /qa,/qb do not exist
    assert not os.path.exists("/qa") and not os.path.exists("/qb")
    lines += ["relpath-lex %s %s" % (hx(t), hx(b)) for t, b in rel]
    diffs, m, impl = diff_lines(lines)
    viol = ctx.setdefault("violations", [])
    # property monitors on the implementation
    n_norm = len(strs)
    impl_norm = dict(zip(strs, impl[:n_norm]))
    again = run_lines(RH, ["normpath " + v for v in impl[:n_norm]])
    nonidem = [(s, a, b) for (s, a, b) in zip(strs, impl[:n_norm], again) if a != b]
    if nonidem:
        s, a, b = min(nonidem, key=lambda x: len(x[0]))
        p = write_replay("C15", "idempotent", dict(kind="impl-monitor", clause="idempotent", input=s, once=unhx(a).decode(), twice=unhx(b).decode()))
        viol.append(Violation("C15", p, "normpath not idempotent on %r" % s))
    # rejoin: normpath(base + "/" + relpath(t, base)) == normpath(t)
    off = n_norm + len(pairs)
    rj = []
    for (t, b), r in zip(rel, impl[off:]):
        if r.startswith("err") or r == "panic":
            continue
        rj.append((t, b, r))
    out = run_lines(RH, ["normpath " + hx(b.encode() + b"/" + unhx(r)) for t, b, r in rj] + ["normpath " + hx(t) for t, b, r in rj])
    bad = [(t, b, r) for (t, b, r), x, y in zip(rj, out[:len(rj)], out[len(rj):]) if x != y]
    if bad:
        t, b, r = min(bad, key=lambda x: len(x[0]) + len(x[1]))
        p = write_replay("C15", "rejoin", dict(kind="impl-monitor", clause="rejoin", t=t, base=b, rel=unhx(r).decode()))
        viol.append(Violation("C15", p, "relpath/rejoin fails for t=%r base=%r" % (t, b)))
    if diffs and not viol:
        l, a, b = min(diffs, key=lambda d: len(d[0]))
        p = write_replay("C15", "corr", dict(kind="model-vs-impl", layer="Paths", request=l, model=a, impl=b, count=len(diffs)))
        viol.append(Violation("C15", p, "model and implementation disagree on %d path requests (first: %s)" % (len(diffs), l), no_input=True))
    if diffs and len(viol) == 1 and viol[0].no_input:
        # the correspondence broke: search the implementation for a concrete spelling that now denotes two targets
        found = []
        symlink_level(ctx, rng, found)
        if not found:
            process_level(ctx, rng, found)
        if not found:
            oob_other_dir_scenario(found)
        if found:
            viol[:] = found[:1]
    sym = symlink_level(ctx, rng, viol) if not viol else {}
    prc = process_level(ctx, rng, viol) if not viol else {}
    if not viol:
        oob_other_dir_scenario(viol)
    if not viol:
        base_discovery_scenario(viol)
    if not viol:
        spellings_of_a_locked_target_scenario(viol)
    bsl = base_level(ctx, random.Random(ctx["seed"] * 103 + 15), viol) if not viol else {}
    fss = fs_semantics_level(ctx, random.Random(ctx["seed"] * 101 + 15), viol) if not viol else {}
    distinct = len(set(lines))
    nontrivial = len(set(l for l, r in zip(lines, impl) if l.split(" ", 1)[0] != "normpath" or hx(l) != r and unhx(l.split()[1]) != unhx(r)))
    return dict(evaluations=len(lines) + len(again) + len(out), distinct_nontrivial=nontrivial,
                rule="all strings over {/ . a b} up to length %d, plus seeded random multi-component paths (unicode, spaces, dots); non-trivial = the function changes its input (normpath) or any abspath/relpath request; distinct by request text" % maxlen,
                samples=[dict(request=lines[i], model=m[i], impl=impl[i]) for i in (5, 300, n_norm + 3, off + 7)],
                exhaustive=False, disagreements_checked=len(lines), distinct_requests=distinct,
                distribution=dict(normpath=n_norm, abspath=len(pairs), relpath=len(rel), symlink_tree=sym, two_spellings=prc, fs_semantics=fss, base_discovery=bsl),
                explanation="exhaustive over the small alphabet up to the stated length; random beyond")
