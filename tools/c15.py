"""C15 — every spelling of a path denotes the same target.
Correspondence: Paths layer (normpath / abs_path / relpath), model vs real library in-process;
property monitors on the implementation: idempotence, rejoin."""
import itertools, random
from common import *

ASSUMPTIONS = [
    "normpath is modelled at component level; byte-level equality with helpers::normpath is what this run's differential check establishes",
    "Path::canonicalize is a parameter of the model (idempotent, equal on equal directories); symlink resolution itself is the OS's",
    "paths are valid UTF-8 without NUL/newline (RedoPath's invariant)",
]


def gen_strings(alpha, maxlen):
    for n in range(maxlen + 1):
        for t in itertools.product(alpha, repeat=n):
            yield "".join(t)


def run(ctx):
    rng = random.Random(ctx["seed"])
    thorough = ctx["tier"] == "thorough"
    maxlen = 9 if thorough else 7
    strs = list(gen_strings("/.ab", maxlen))
    pool = ["a", "b", ".", "..", "", "...", "a.b", ".a", "é", "日本", "a b", " ", "..a", "a..", "x" * 40]
    nrand = 100000 if thorough else 4000
    for _ in range(nrand):
        k = rng.randint(1, 9)
        s = "/".join(rng.choice(pool) for _ in range(k))
        if rng.random() < 0.5:
            s = "/" + s
        if rng.random() < 0.2:
            s += "/"
        strs.append(s)
    lines = ["normpath " + hx(s) for s in strs]
    # abs_path on pairs
    pairs = [(rng.choice(strs[:5000]), rng.choice(strs[:5000])) for _ in range(20000 if thorough else 4000)]
    lines += ["abspath %s %s" % (hx(c), hx(p)) for c, p in pairs]
    # relpath on absolute paths below a directory that does not exist (lexical fallback of realdirpath)
    absr = []
    names = ["qa", "qb", "..", ".", "qa.x", ""]
    def rp():
        return "/" + "/".join(rng.choice(names) for _ in range(rng.randint(1, 6)))
    small = ["/" + "/".join(t) for n in range(1, 4) for t in itertools.product(["qa", "qb", ".."], repeat=n)]
    rel = [(t, b) for t in small for b in small] + [(rp(), rp()) for _ in range(30000 if thorough else 3000)]
    # relpath needs a final component for `t` whose directory part does not resolve on disk: guaranteed since /qa,/qb do not exist
    assert not os.path.exists("/qa") and not os.path.exists("/qb")
    lines += ["relpath-lex %s %s" % (hx(t), hx(b)) for t, b in rel]
    diffs, m, impl = diff_lines(lines)
    viol = ctx.setdefault("violations", [])
    # property monitors on the implementation
    n_norm = len(strs)
    impl_norm = dict(zip(strs, impl[:n_norm]))
    again = run_lines(RH, ["normpath " + v for v in impl[:n_norm]])
    nonidem = [(s, a, b) for (s, a, b) in zip(strs, impl[:n_norm], again) if a != b]
    if nonidem:
        s, a, b = min(nonidem, key=lambda x: len(x[0]))
        p = write_replay("C15", "idempotent", dict(kind="impl-monitor", clause="idempotent", input=s, once=unhx(a).decode(), twice=unhx(b).decode()))
        viol.append(Violation("C15", p, "normpath not idempotent on %r" % s))
    # rejoin: normpath(base + "/" + relpath(t, base)) == normpath(t)
    off = n_norm + len(pairs)
    rj = []
    for (t, b), r in zip(rel, impl[off:]):
        if r.startswith("err") or r == "panic":
            continue
        rj.append((t, b, r))
    out = run_lines(RH, ["normpath " + hx(b.encode() + b"/" + unhx(r)) for t, b, r in rj] + ["normpath " + hx(t) for t, b, r in rj])
    bad = [(t, b, r) for (t, b, r), x, y in zip(rj, out[:len(rj)], out[len(rj):]) if x != y]
    if bad:
        t, b, r = min(bad, key=lambda x: len(x[0]) + len(x[1]))
        p = write_replay("C15", "rejoin", dict(kind="impl-monitor", clause="rejoin", t=t, base=b, rel=unhx(r).decode()))
        viol.append(Violation("C15", p, "relpath/rejoin fails for t=%r base=%r" % (t, b)))
    if diffs and not viol:
        l, a, b = min(diffs, key=lambda d: len(d[0]))
        p = write_replay("C15", "corr", dict(kind="model-vs-impl", layer="Paths", request=l, model=a, impl=b, count=len(diffs)))
        viol.append(Violation("C15", p, "model and implementation disagree on %d path requests (first: %s)" % (len(diffs), l), no_input=True))
    distinct = len(set(lines))
    nontrivial = len(set(l for l, r in zip(lines, impl) if l.split(" ", 1)[0] != "normpath" or hx(l) != r and unhx(l.split()[1]) != unhx(r)))
    return dict(evaluations=len(lines) + len(again) + len(out), distinct_nontrivial=nontrivial,
                rule="all strings over {/ . a b} up to length %d, plus seeded random multi-component paths (unicode, spaces, dots); non-trivial = the function changes its input (normpath) or any abspath/relpath request; distinct by request text" % maxlen,
                samples=[dict(request=lines[i], model=m[i], impl=impl[i]) for i in (5, 300, n_norm + 3, off + 7)],
                exhaustive=False, disagreements_checked=len(lines), distinct_requests=distinct,
                distribution=dict(normpath=n_norm, abspath=len(pairs), relpath=len(rel)),
                explanation="exhaustive over the small alphabet up to the stated length; random beyond")
