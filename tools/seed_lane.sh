#!/bin/bash
# usage: tools/seed_lane.sh <lane> <id:patchfile[:otherids]>...   — run the quick check of the seed's own property (then the listed others) against each seeded change
set -u
LANE="$1"; shift
cd "$(dirname "$0")/.."
for spec in "$@"; do
  id="${spec%%:*}"; rest="${spec#*:}"; pf="${rest%%:*}"; others=""; [ "$rest" != "$pf" ] && others="${rest#*:}"
  OUT=$(SEED_SCRATCH=/tmp/sl-$LANE- tools/try_seed.sh seeded/$id/$pf $id ${others//,/ } 2>&1)
  echo "== $id $pf"; echo "$OUT" | grep -v "^$" | cut -c1-500
done
echo "LANE-DONE $LANE"
