"""C16 — concurrent commands on one project do not fail spuriously or lose state.
Correspondence: every process's txn.*/init.* events are replayed through the Lean acceptor SqlTxn.step
(per connection); a write inside a DEFERRED transaction is the only place the model allows SQLITE_BUSY.
Implementation monitors: k simultaneous invocations of a mix of commands; none may fail with a database /
lock error; integrity_check; dependency rows of every built target present."""
import random, sqlite3
from common import *
from proj import Project
import sched

ASSUMPTIONS = [
    "SQLite WAL: BEGIN IMMEDIATE waits (busy timeout 60 s) and then cannot fail; a read-then-write DEFERRED transaction fails at once when its snapshot is stale; transactions are atomic and isolated (not verified)",
    "event order is used per connection only (no cross-process ordering is needed for the discipline that is checked)",
]

BUSY = re.compile(r"database is locked|database table is locked|SQLITE_BUSY|failed to insert new Runid|lock error|no such table|schema (version )?check failed|could not connect", re.I)


def fresh_project_race(viol, stats, samples):
    """Commands started together on a fresh directory: the one that creates .redo/db.sqlite3 is paused between
    creating the file and creating its tables (delay hook init.connect), the others arrive meanwhile."""
    for others in ([["redo-ifchange", "b"]], [["redo", "b"], ["redo-targets"]], [["redo-ood"], ["redo-ifchange", "b"], ["redo-sources"]]):
        pr = Project()
        try:
            pr.write("a.do", "echo a\n")
            pr.write("b.do", "echo b\n")
            cmds = [["redo", "a"]] + others
            rs = sched.run_cmds(pr, cmds, env={"REDO_VERIF_DELAY": "init.connect=250"}, timeout=60, stagger=0.08)
            stats["rounds"] += 1
            stats["commands"] += len(cmds)
            scen = dict(commands=cmds, fresh_project=True, delay="init.connect=250 (the creator of the database file pauses before creating the tables)")
            for c, r in zip(cmds, rs):
                if r.rc != 0:
                    p = write_replay("C16", "fresh-race", dict(kind="impl-monitor", scenario=scen, command=c, rc=r.rc, stderr=r.err[-1500:]))
                    viol.append(Violation("C16", p, "on a fresh project, `%s` started beside `%s` exited %s although every script succeeds: %s" %
                                          (" ".join(c), " ".join(cmds[0]), r.rc, r.err.strip().splitlines()[-1][:160] if r.err.strip() else "")))
                    return
            if pr.read("a") != b"a\n" or pr.read("b") not in (b"b\n", None if not any("b" in c for c in others) else b"b\n"):
                p = write_replay("C16", "fresh-race-state", dict(kind="impl-monitor", scenario=scen, a=repr(pr.read("a")), b=repr(pr.read("b"))))
                viol.append(Violation("C16", p, "on a fresh project, concurrent first commands lost a build result"))
                return
            db = sqlite3.connect("file:%s?mode=ro" % pr.path(".redo/db.sqlite3"), uri=True, timeout=30)
            names = set(x[0] for x in db.execute("select name from Files").fetchall())
            db.close()
            want = {"a", "a.do"} | ({"b", "b.do"} if any(c[-1] == "b" for c in others) else set())
            if not want <= names:
                p = write_replay("C16", "fresh-race-rows", dict(kind="impl-monitor", scenario=scen, rows=sorted(names), missing=sorted(want - names)))
                viol.append(Violation("C16", p, "on a fresh project, records written by a concurrent first command are missing: %s" % sorted(want - names)))
                return
            if len(samples) < 1:
                samples.append(dict(scenario=scen, rcs=[r.rc for r in rs]))
        finally:
            pr.destroy()


def same_target_twice(viol, stats):
    """Two top-level commands want one target at overlapping times (the second finds it locked and waits); repeated on
    the built target; then a source is edited.  Afterwards the target's record is the one of a generated target with
    its dependencies: listed by redo-targets, not by redo-sources, rebuilt when its input changes."""
    for cmds in ([["redo", "x"], ["redo", "x"]], [["redo-ifchange", "x"], ["redo", "x"]], [["redo", "x"], ["redo", "y"]]):
        pr = Project()
        try:
            pr.write("src", "1\n")
            pr.write("x.do", "redo-ifchange src\nsleep 0.6\ncat src\n")
            pr.write("y.do", "redo-ifchange x\ncat x\n")
            problems = []
            for rnd in (1, 2):
                rs = sched.run_cmds(pr, cmds, timeout=60, stagger=0.25)
                stats["rounds"] += 1
                stats["commands"] += len(cmds)
                for c, r in zip(cmds, rs):
                    if r.rc != 0 or "you modified it" in r.err:
                        problems.append("round %d: `%s` exit %d%s" % (rnd, " ".join(c), r.rc, " (took the other command's output for a hand edit)" if "you modified it" in r.err else ""))
                tg = set(pr.run(["redo-targets"])[1].split())
                so = set(pr.run(["redo-sources"])[1].split())
                if "x" not in tg or "x" in so or "src" not in so:
                    problems.append("round %d: redo-targets %s, redo-sources %s" % (rnd, sorted(tg), sorted(so)))
                if problems:
                    break
            if not problems:
                pr.write("src", "2\n")
                rc, o, e = pr.run(["redo-ifchange", "x"], timeout=60)
                if rc != 0 or pr.read("x") != b"2\n":
                    problems.append("after editing src, redo-ifchange x exit %d leaves x = %r" % (rc, pr.read("x")))
            if problems:
                p = write_replay("C16", "same-target", dict(kind="impl-monitor", commands=cmds, stagger=0.25, problems=problems, scripts={"x.do": "redo-ifchange src; sleep 0.6; cat src", "y.do": "redo-ifchange x; cat x"}))
                viol.append(Violation("C16", p, "`%s` beside `%s`: %s" % (" ".join(cmds[0]), " ".join(cmds[1]), "; ".join(problems[:3]))))
                return
        finally:
            pr.destroy()


def txn_events(trace):
    """pid -> list of wire events."""
    per = {}
    for pid, ts, name, a in trace:
        ev = per.setdefault(pid, [])
        if name == "txn.begin":
            ev.append(("bi,%d" if "IMMEDIATE" in " ".join(a) or "EXCLUSIVE" in " ".join(a) else "bd,%d") % pid)
        elif name == "txn.firstwrite":
            ev.append("wr,%d,%s" % (pid, (a[0] if a else "?").replace(",", "_").replace(";", "_")))
        elif name == "txn.commit":
            ev.append("cm,%d" % pid)
        elif name == "txn.rollback":
            ev.append("rb,%d" % pid)
        elif name == "init.txn":
            ev.append(("bi,%d" if "immediate" in a else "bd,%d") % pid)
            if a and a[0] == "open":
                ev.append("rd,%d" % pid)      # the schema version query
        elif name == "init.runid":
            ev.append("wr,%d,init-insert-into-Runid" % pid)
        elif name == "init.commit":
            ev.append("cm,%d" % pid)
    return per


def fresh_project_storm(viol, stats, rounds):
    """Eight commands (builds and queries) started at the same instant on a directory that has no .redo yet: all of
    them open, configure (journal mode) and possibly create the database together.  They are started by one shell
    with `&` (Popen one by one is too slow: the first would be done configuring before the last starts)."""
    cmds = ["redo -j2 t1", "redo-ood", "redo -j2 t2", "redo-sources", "redo-targets", "redo-ifchange t3", "redo-sources", "redo-targets"]
    script = "\n".join("(%s >o%d 2>e%d; echo $? >r%d) &" % (c, k, k, k) for k, c in enumerate(cmds)) + "\nwait\n"
    pr = Project()
    try:
        for rnd in range(rounds):
            sub = "s%d" % rnd
            for i in range(1, 5):
                pr.write("%s/t%d.do" % (sub, i), "echo t%d\n" % i)
            rc, out, err = pr.run(["sh", "-c", script], cwd=sub, timeout=90)
            stats["rounds"] += 1
            stats["commands"] += len(cmds)
            stats["storm_rounds"] = stats.get("storm_rounds", 0) + 1
            for k, c in enumerate(cmds):
                r = (pr.read("%s/r%d" % (sub, k)) or b"-999").decode().strip()
                if r != "0":
                    e = (pr.read("%s/e%d" % (sub, k)) or b"").decode("utf-8", "replace")
                    p = write_replay("C16", "storm-%d" % rnd, dict(kind="impl-monitor", scenario=dict(commands=cmds, fresh_project=True, started="by one shell with &"), command=c, rc=r, stderr=e[-1500:]))
                    viol.append(Violation("C16", p, "eight commands started together on a fresh project: `%s` exited %s although every script succeeds: %s" %
                                          (c, r, e.strip().splitlines()[-1][:160] if e.strip() else "")))
                    return
    finally:
        pr.destroy()


def vanished_target_queries(viol, stats):
    """The read-only queries beside anything: none of them may write inside its (DEFERRED, never committed) transaction —
    also when the dirtiness walk meets a generated target whose file has been removed (the "target vanished" branch of
    deps.rs forgets that it was a target)."""
    pr = Project()
    try:
        pr.write("a.do", "redo-ifchange b\ncat b\n")
        pr.write("b.do", "echo b\n")
        r0 = sched.run_cmds(pr, [["redo", "a"]], timeout=30)[0]
        pr.rm("b")
        for cmd in (["redo-ood"], ["redo-targets"], ["redo-sources"]):
            r = sched.run_cmds(pr, [cmd], timeout=30)[0]
            per = txn_events(r.trace)
            reqs = ["sqltxn-replay " + (";".join(ev) if ev else "-") for ev in per.values()]
            ans = run_lines(MODEL, reqs) if reqs else []
            stats["processes"] += len(per)
            for (pid, ev), a in zip(per.items(), ans):
                m = re.match(r"ok busy=(\d+)\s*(.*)", a)
                if a.startswith("reject") or (m and int(m.group(1)) > 0) or r.rc != 0:
                    p = write_replay("C16", "vanished-query", dict(kind="model-flags-busy-possible", scenario="a.do: redo-ifchange b; cat b.  b.do: echo b.  redo a; rm b; " + " ".join(cmd), events=ev, answer=a, rc=r.rc, stderr=r.err[-600:]))
                    viol.append(Violation("C16", p, "`%s` after a generated target's file was removed writes inside its DEFERRED transaction (%s): 'database is locked' as soon as another command commits meanwhile" % (" ".join(cmd), (m.group(2) if m else a))))
                    return
    finally:
        pr.destroy()


def run(ctx):
    rng = random.Random(ctx["seed"] * 13 + 16)
    viol = ctx.setdefault("violations", [])
    thorough = ctx["tier"] == "thorough"
    rounds = 40 if thorough else 8
    stats = dict(rounds=0, commands=0, processes=0, txns=0, deferred_writes=0, busy_errors=0)
    known_hit = []
    samples = []
    kf = {k["id"]: k for k in known_findings("C16") if k.get("status") == "known"}
    fresh_project_race(viol, stats, samples)
    if not viol:
        fresh_project_storm(viol, stats, 150 if thorough else 30)
    if not viol:
        same_target_twice(viol, stats)
    if not viol:
        vanished_target_queries(viol, stats)
    for rnd in range(rounds if not viol else 0):
        pr = Project()
        try:
            g = sched.gen_graph(rng, rng.randint(4, 8))
            for nm in g:
                g[nm]["dur"] = rng.choice([0, 5, 20])
            sched.write_project(pr, g)
            fresh = rng.random() < 0.4
            if not fresh:
                r0 = sched.run_cmds(pr, [["redo", "all"]], timeout=60)[0]
                if rng.random() < 0.5:
                    pr.rm(rng.choice(sorted(g)))          # a generated file vanished: the queries meet it
            k = rng.choice([2, 4, 8] if thorough else [2, 4, 6])
            names = sorted(g)
            cmds = []
            for i in range(k):
                c = rng.choice(["redo", "ifc", "ood", "targets", "sources", "log", "ifc"])
                if c == "redo":
                    cmds.append(["redo", "-j2", rng.choice(names + ["all"])])
                elif c == "ifc":
                    cmds.append(["redo-ifchange", rng.choice(names + ["all"])])
                elif c == "log":
                    cmds.append(["redo-log", "--no-pretty", "--no-status", "all"] if not fresh else ["redo-targets"])
                else:
                    cmds.append(["redo-" + c])
            rs = sched.run_cmds(pr, cmds, timeout=90)
            stats["rounds"] += 1
            stats["commands"] += len(cmds)
            trace = rs[0].trace
            per = txn_events(trace)
            reqs = ["sqltxn-replay " + (";".join(ev) if ev else "-") for ev in per.values()]
            ans = run_lines(MODEL, reqs) if reqs else []
            stats["processes"] += len(per)
            stats["txns"] += sum(1 for ev in per.values() for e in ev if e[:2] in ("bd", "bi"))
            scen = dict(commands=cmds, fresh_project=fresh, graph={n: v["deps"] for n, v in g.items()})
            for (pid, ev), a in zip(per.items(), ans):
                if a.startswith("reject"):
                    p = write_replay("C16", "trace-%d" % rnd, dict(kind="trace-rejected-by-model", scenario=scen, pid=pid, events=ev, answer=a))
                    viol.append(Violation("C16", p, "transaction trace rejected by the model: " + a, no_input=True))
                    break
                m = re.match(r"ok busy=(\d+)\s*(.*)", a)
                if m and int(m.group(1)) > 0:
                    stats["deferred_writes"] += int(m.group(1))
                    what = m.group(2)
                    if "init-insert-into-Runid" in what and "runid-in-deferred-txn" in kf:
                        msg = "ProcessState::init inserts the run id inside a DEFERRED transaction after reading the schema (state.rs db.transaction()): 'database is locked' possible when another command commits in between"
                        if msg not in known_hit:
                            known_hit.append(msg)
                    else:
                        p = write_replay("C16", "deferred-write-%d" % rnd, dict(kind="model-flags-busy-possible", scenario=scen, pid=pid, events=ev, answer=a))
                        viol.append(Violation("C16", p, "a process writes inside a DEFERRED transaction (%s): SQLITE_BUSY possible under a concurrent commit" % what))
                        break
            if viol:
                break
            # implementation monitors
            for c, r in zip(cmds, rs):
                if r.timed_out:
                    p = write_replay("C16", "hang-%d" % rnd, dict(kind="impl-monitor", scenario=scen, command=c, stderr=r.err[-1500:]))
                    viol.append(Violation("C16", p, "command %s did not finish within 90 s beside %d others" % (" ".join(c), k - 1)))
                    break
                if r.rc != 0 and not BUSY.search(r.err) and r.rc != 101:
                    # every script of these projects succeeds: no failure is attributable to a build script
                    p = write_replay("C16", "spurious-%d" % rnd, dict(kind="impl-monitor", scenario=scen, command=c, rc=r.rc, stderr=r.err[-1500:]))
                    viol.append(Violation("C16", p, "command %s exited %s beside %d others although every script succeeds: %s" % (" ".join(c), r.rc, k - 1, r.err.strip().splitlines()[-1][:160] if r.err.strip() else "")))
                    break
                if BUSY.search(r.err) or (r.rc == 101):
                    stats["busy_errors"] += 1
                    if "failed to insert new Runid" in r.err and "runid-in-deferred-txn" in kf:
                        msg = "`%s` beside %d other commands: failed to insert new Runid: database is locked" % (" ".join(c), k - 1)
                        if not any("failed to insert new Runid" in x for x in known_hit):
                            known_hit.append(msg)
                        continue
                    if "panicked" in r.err and "my_tokens >= 1" in r.err and "release-mine-without-token" in {x["id"] for x in known_findings("C09") if x.get("status") == "known"}:
                        continue
                    p = write_replay("C16", "busy-%d" % rnd, dict(kind="impl-monitor", scenario=scen, command=c, rc=r.rc, stderr=r.err[-1500:]))
                    viol.append(Violation("C16", p, "command %s failed with a database/lock error beside %d others: %s" % (" ".join(c), k - 1, (BUSY.search(r.err).group(0) if BUSY.search(r.err) else "abort"))))
                    break
            if viol:
                break
            db = sqlite3.connect("file:%s?mode=ro" % pr.path(".redo/db.sqlite3"), uri=True, timeout=30)
            ic = db.execute("pragma integrity_check").fetchall()
            db.close()
            if ic != [("ok",)]:
                p = write_replay("C16", "integrity-%d" % rnd, dict(kind="impl-monitor", scenario=scen, integrity=ic))
                viol.append(Violation("C16", p, "integrity_check: %r" % ic))
                break
            # the records written by each command are all present afterwards: bring everything up to date, then every
            # node of the graph is a known target, none is taken for a source, nothing is out of date
            r1 = sched.run_cmds(pr, [["redo-ifchange", "all"]], timeout=90)[0]
            rc1, e1 = r1.rc, r1.err
            rc2, tg, e2 = pr.run(["redo-targets"])
            rc3, so, e3 = pr.run(["redo-sources"])
            rc4, oo, e4 = pr.run(["redo-ood"])
            tg, so, oo = set(tg.split()), set(so.split()), set(oo.split())
            lost = sorted(n for n in g if n not in tg)
            wrong = sorted(n for n in g if n in so)
            stats["state_checks"] = stats.get("state_checks", 0) + 1
            if rc1 != 0 or lost or wrong or (oo & set(g)):
                p = write_replay("C16", "records-%d" % rnd, dict(kind="impl-monitor", scenario=scen, ifchange_all_rc=rc1, not_listed_as_targets=lost, listed_as_sources=wrong, out_of_date=sorted(oo), stderr=e1[-800:]))
                viol.append(Violation("C16", p, "after %d concurrent commands: redo-ifchange all exit %d; targets missing from redo-targets %s; targets listed as sources %s; out of date %s" % (k, rc1, lost, wrong, sorted(oo & set(g)))))
                break
            if len(samples) < 2:
                samples.append(dict(scenario=scen, rcs=[r.rc for r in rs], a_process_trace=list(per.values())[0][:10], answer=ans[0] if ans else None))
        finally:
            pr.destroy()
    return dict(evaluations=stats["txns"], distinct_nontrivial=stats["commands"],
                rule="rounds of 2-8 simultaneously started commands (redo -j2, redo-ifchange, redo-ood/targets/sources, redo-log) on generated projects, 40% on a fresh directory (first commands create .redo); every process's transaction events replayed by the Lean acceptor; distinct = commands",
                samples=samples, traces_validated_against_impl=stats["processes"], disagreements_checked=stats["txns"], distribution=stats, known_hit=known_hit)
