"""C16 — concurrent commands on one project do not fail spuriously or lose state.
Correspondence: every process's txn.*/init.* events are replayed through the Lean acceptor SqlTxn.step
(per connection); a write inside a DEFERRED transaction is the only place the model allows SQLITE_BUSY.
Implementation monitors: k simultaneous invocations of a mix of commands; none may fail with a database /
lock error; integrity_check; dependency rows of every built target present.  Directed families: commands that do
not start together — a complete second command (after an edit) during a long first one that has already looked at the
same targets (during_command_family), and a second request for a target whose out-of-band check (redo-unlocked) is
under way (oob_family)."""
import random, sqlite3
from common import *
from proj import Project, kill_orphans
import sched

ASSUMPTIONS = [
    "SQLite WAL: BEGIN IMMEDIATE waits (busy timeout 60 s) and then cannot fail; a read-then-write DEFERRED transaction fails at once when its snapshot is stale; transactions are atomic and isolated (not verified)",
    "event order is used per connection only (no cross-process ordering is needed for the discipline that is checked)",
]

BUSY = re.compile(r"database is locked|database table is locked|SQLITE_BUSY|failed to insert new Runid|lock error|no such table|schema (version )?check failed|could not connect", re.I)


def fresh_project_race(viol, stats, samples):
    """Commands started together on a fresh directory: the one that creates .redo/db.sqlite3 is paused between
    creating the file and creating its tables (delay hook init.connect), the others arrive meanwhile."""
    for others in ([["redo-ifchange", "b"]], [["redo", "b"], ["redo-targets"]], [["redo-ood"], ["redo-ifchange", "b"], ["redo-sources"]]):
        pr = Project()
        try:
            pr.write("a.do", "echo a\n")
            pr.write("b.do", "echo b\n")
            cmds = [["redo", "a"]] + others
            rs = sched.run_cmds(pr, cmds, env={"REDO_VERIF_DELAY": "init.connect=250"}, timeout=60, stagger=0.08)
            stats["rounds"] += 1
            stats["commands"] += len(cmds)
            scen = dict(commands=cmds, fresh_project=True, delay="init.connect=250 (the creator of the database file pauses before creating the tables)")
            for c, r in zip(cmds, rs):
                if r.rc != 0:
                    p = write_replay("C16", "fresh-race", dict(kind="impl-monitor", scenario=scen, command=c, rc=r.rc, stderr=r.err[-1500:]))
                    viol.append(Violation("C16", p, "on a fresh project, `%s` started beside `%s` exited %s although every script succeeds: %s" %
                                          (" ".join(c), " ".join(cmds[0]), r.rc, r.err.strip().splitlines()[-1][:160] if r.err.strip() else "")))
                    return
            if pr.read("a") != b"a\n" or pr.read("b") not in (b"b\n", None if not any("b" in c for c in others) else b"b\n"):
                p = write_replay("C16", "fresh-race-state", dict(kind="impl-monitor", scenario=scen, a=repr(pr.read("a")), b=repr(pr.read("b"))))
                viol.append(Violation("C16", p, "on a fresh project, concurrent first commands lost a build result"))
                return
            db = sqlite3.connect("file:%s?mode=ro" % pr.path(".redo/db.sqlite3"), uri=True, timeout=30)
            names = set(x[0] for x in db.execute("select name from Files").fetchall())
            db.close()
            want = {"a", "a.do"} | ({"b", "b.do"} if any(c[-1] == "b" for c in others) else set())
            if not want <= names:
                p = write_replay("C16", "fresh-race-rows", dict(kind="impl-monitor", scenario=scen, rows=sorted(names), missing=sorted(want - names)))
                viol.append(Violation("C16", p, "on a fresh project, records written by a concurrent first command are missing: %s" % sorted(want - names)))
                return
            if len(samples) < 1:
                samples.append(dict(scenario=scen, rcs=[r.rc for r in rs]))
        finally:
            pr.destroy()


def same_target_twice(viol, stats):
    """Two top-level commands want one target at overlapping times (the second finds it locked and waits); repeated on
    the built target; then a source is edited.  Afterwards the target's record is the one of a generated target with
    its dependencies: listed by redo-targets, not by redo-sources, rebuilt when its input changes."""
    for cmds in ([["redo", "x"], ["redo", "x"]], [["redo-ifchange", "x"], ["redo", "x"]], [["redo", "x"], ["redo", "y"]]):
        pr = Project()
        try:
            pr.write("src", "1\n")
            pr.write("x.do", "redo-ifchange src\nsleep 0.6\ncat src\n")
            pr.write("y.do", "redo-ifchange x\ncat x\n")
            problems = []
            for rnd in (1, 2):
                rs = sched.run_cmds(pr, cmds, timeout=60, stagger=0.25)
                stats["rounds"] += 1
                stats["commands"] += len(cmds)
                for c, r in zip(cmds, rs):
                    if r.rc != 0 or "you modified it" in r.err:
                        problems.append("round %d: `%s` exit %d%s" % (rnd, " ".join(c), r.rc, " (took the other command's output for a hand edit)" if "you modified it" in r.err else ""))
                tg = set(pr.run(["redo-targets"])[1].split())
                so = set(pr.run(["redo-sources"])[1].split())
                if "x" not in tg or "x" in so or "src" not in so:
                    problems.append("round %d: redo-targets %s, redo-sources %s" % (rnd, sorted(tg), sorted(so)))
                if problems:
                    break
            if not problems:
                pr.write("src", "2\n")
                rc, o, e = pr.run(["redo-ifchange", "x"], timeout=60)
                if rc != 0 or pr.read("x") != b"2\n":
                    problems.append("after editing src, redo-ifchange x exit %d leaves x = %r" % (rc, pr.read("x")))
            if problems:
                p = write_replay("C16", "same-target", dict(kind="impl-monitor", commands=cmds, stagger=0.25, problems=problems, scripts={"x.do": "redo-ifchange src; sleep 0.6; cat src", "y.do": "redo-ifchange x; cat x"}))
                viol.append(Violation("C16", p, "`%s` beside `%s`: %s" % (" ".join(cmds[0]), " ".join(cmds[1]), "; ".join(problems[:3]))))
                return
        finally:
            pr.destroy()


def txn_events(trace):
    """pid -> list of wire events."""
    per = {}
    for pid, ts, name, a in trace:
        ev = per.setdefault(pid, [])
        if name == "txn.begin":
            ev.append(("bi,%d" if "IMMEDIATE" in " ".join(a) or "EXCLUSIVE" in " ".join(a) else "bd,%d") % pid)
        elif name == "txn.firstwrite":
            ev.append("wr,%d,%s" % (pid, (a[0] if a else "?").replace(",", "_").replace(";", "_")))
        elif name == "txn.commit":
            ev.append("cm,%d" % pid)
        elif name == "txn.rollback":
            ev.append("rb,%d" % pid)
        elif name == "init.txn":
            ev.append(("bi,%d" if "immediate" in a else "bd,%d") % pid)
            if a and a[0] == "open":
                ev.append("rd,%d" % pid)      # the schema version query
        elif name == "init.runid":
            ev.append("wr,%d,init-insert-into-Runid" % pid)
        elif name == "init.commit":
            ev.append("cm,%d" % pid)
    return per


def fresh_project_storm(viol, stats, rounds):
    """Eight commands (builds and queries) started at the same instant on a directory that has no .redo yet: all of
    them open, configure (journal mode) and possibly create the database together.  They are started by one shell
    with `&` (Popen one by one is too slow: the first would be done configuring before the last starts)."""
    cmds = ["redo -j2 t1", "redo-ood", "redo -j2 t2", "redo-sources", "redo-targets", "redo-ifchange t3", "redo-sources", "redo-targets"]
    script = "\n".join("(%s >o%d 2>e%d; echo $? >r%d) &" % (c, k, k, k) for k, c in enumerate(cmds)) + "\nwait\n"
    pr = Project()
    try:
        for rnd in range(rounds):
            sub = "s%d" % rnd
            for i in range(1, 5):
                pr.write("%s/t%d.do" % (sub, i), "echo t%d\n" % i)
            rc, out, err = pr.run(["sh", "-c", script], cwd=sub, timeout=90)
            stats["rounds"] += 1
            stats["commands"] += len(cmds)
            stats["storm_rounds"] = stats.get("storm_rounds", 0) + 1
            for k, c in enumerate(cmds):
                r = (pr.read("%s/r%d" % (sub, k)) or b"-999").decode().strip()
                if r != "0":
                    e = (pr.read("%s/e%d" % (sub, k)) or b"").decode("utf-8", "replace")
                    p = write_replay("C16", "storm-%d" % rnd, dict(kind="impl-monitor", scenario=dict(commands=cmds, fresh_project=True, started="by one shell with &"), command=c, rc=r, stderr=e[-1500:]))
                    viol.append(Violation("C16", p, "eight commands started together on a fresh project: `%s` exited %s although every script succeeds: %s" %
                                          (c, r, e.strip().splitlines()[-1][:160] if e.strip() else "")))
                    return
    finally:
        pr.destroy()


def vanished_target_queries(viol, stats):
    """The read-only queries beside anything: none of them may write inside its (DEFERRED, never committed) transaction —
    also when the dirtiness walk meets a generated target whose file has been removed (the "target vanished" branch of
    deps.rs forgets that it was a target)."""
    pr = Project()
    try:
        pr.write("a.do", "redo-ifchange b\ncat b\n")
        pr.write("b.do", "echo b\n")
        r0 = sched.run_cmds(pr, [["redo", "a"]], timeout=30)[0]
        pr.rm("b")
        for cmd in (["redo-ood"], ["redo-targets"], ["redo-sources"]):
            r = sched.run_cmds(pr, [cmd], timeout=30)[0]
            per = txn_events(r.trace)
            reqs = ["sqltxn-replay " + (";".join(ev) if ev else "-") for ev in per.values()]
            ans = run_lines(MODEL, reqs) if reqs else []
            stats["processes"] += len(per)
            for (pid, ev), a in zip(per.items(), ans):
                m = re.match(r"ok busy=(\d+)\s*(.*)", a)
                if a.startswith("reject") or (m and int(m.group(1)) > 0) or r.rc != 0:
                    p = write_replay("C16", "vanished-query", dict(kind="model-flags-busy-possible", scenario="a.do: redo-ifchange b; cat b.  b.do: echo b.  redo a; rm b; " + " ".join(cmd), events=ev, answer=a, rc=r.rc, stderr=r.err[-600:]))
                    viol.append(Violation("C16", p, "`%s` after a generated target's file was removed writes inside its DEFERRED transaction (%s): 'database is locked' as soon as another command commits meanwhile" % (" ".join(cmd), (m.group(2) if m else a))))
                    return
    finally:
        pr.destroy()


HOLD = 'n=0; while [ -e %s ] && [ $n -lt 600 ]; do sleep 0.05; n=$((n+1)); done\n'


def _start(pr, argv, trace=None):
    import subprocess
    from proj import clean_env
    env = clean_env({"REDO_VERIF_TRACE": pr.path(trace)} if trace else None)
    return subprocess.Popen(argv, cwd=pr.root, env=env, stdout=subprocess.PIPE, stderr=subprocess.PIPE, stdin=subprocess.DEVNULL, start_new_session=True)


def _finish(p, timeout):
    """(rc, stderr) of a started command; -999 when it had to be killed."""
    import signal, subprocess
    try:
        out, err = p.communicate(timeout=timeout)
        rc = p.returncode
    except subprocess.TimeoutExpired:
        try:
            os.killpg(p.pid, signal.SIGKILL)
        except ProcessLookupError:
            pass
        out, err = p.communicate()
        rc = -999
    kill_orphans(p.pid)
    return rc, err.decode("utf-8", "replace")


def _wait_file(pr, rel, p, secs):
    import time
    t0 = time.time()
    while time.time() - t0 < secs:
        if pr.read(rel):
            return True
        if p.poll() is not None:
            return bool(pr.read(rel))
        time.sleep(0.02)
    return False


def command_during_command(cmd1, cmd2):
    """A long first command, and during it an edit and a complete second command that rebuilds what the first one has
    already looked at:  dsrc -> D -> P,  qsrc -> Q (its script waits),  P, Q -> all.  Everything is built, qsrc is edited;
    cmd1 (which asks for P and Q, directly or through all) finds P and D up to date and is then busy with Q; meanwhile
    dsrc is edited and cmd2 rebuilds D (and P); then Q is let go and cmd1 ends — after cmd2.  Monitor (the records
    written by each command are all present afterwards): both exit 0; what cmd2 built is there; a final redo-ifchange all
    exits 0 without taking anything redo built for a hand-edited file, gives the from-scratch contents, every target is
    listed by redo-targets and not by redo-sources, redo-ood is empty; a later edit of dsrc reaches P and all.
    Returns (problems, info); problems empty also when the interleaving could not be set up."""
    pr = Project()
    try:
        pr.write("D.do", "redo-ifchange dsrc\ncat dsrc\n")
        pr.write("P.do", 'redo-ifchange D\necho "P from $(cat D)"\n')
        pr.write("Q.do", "redo-ifchange qsrc\necho x >q.started\n" + HOLD % "hold" + "cat qsrc\n")
        pr.write("all.do", "redo-ifchange P Q\ncat P Q\n")
        pr.write("dsrc", "d1\n")
        pr.write("qsrc", "q1\n")
        info = dict(cmd1=cmd1, cmd2=cmd2)
        rc, o, e = pr.run(["redo-ifchange", "all"], timeout=90)
        if rc != 0 or pr.read("all") != b"P from d1\nq1\n":
            return ["setup build failed (exit %d)" % rc], dict(info, stderr=e[-600:])
        pr.write("qsrc", "q2\n")
        pr.rm("q.started")
        pr.write("hold", "")
        p1 = _start(pr, cmd1)
        reached = _wait_file(pr, "q.started", p1, 60)
        pr.write("dsrc", "d2\n")
        rc2, e2 = _finish(_start(pr, cmd2), 60)
        still_running = p1.poll() is None
        pr.rm("hold")
        rc1, e1 = _finish(p1, 90)
        info.update(rc1=rc1, rc2=rc2, interleaving_reached=bool(reached and still_running), stderr1=e1[-500:], stderr2=e2[-500:])
        problems = []
        for c, rc, e in ((cmd1, rc1, e1), (cmd2, rc2, e2)):
            if rc != 0:
                problems.append("`%s` exited %d although every script succeeds (%s)" % (" ".join(c), rc, e.strip().splitlines()[-1][:120] if e.strip() else ""))
            if "you modified it" in e:
                problems.append("`%s` took a target redo built for a hand-edited file: %s" % (" ".join(c), [l for l in e.splitlines() if "you modified it" in l][0][:100]))
        if not problems and pr.read("D") != b"d2\n":
            problems.append("after `%s` D holds %r, expected b'd2\\n'" % (" ".join(cmd2), pr.read("D")))
        if not problems and cmd2[-1] == "P" and pr.read("P") != b"P from d2\n":
            problems.append("after `%s` P holds %r, expected b'P from d2\\n'" % (" ".join(cmd2), pr.read("P")))
        if not problems:
            rc3, o3, e3 = pr.run(["redo-ifchange", "all"], timeout=90)
            if rc3 != 0 or "you modified it" in e3:
                problems.append("a following `redo-ifchange all` exits %d%s" % (rc3, ": " + [l for l in e3.splitlines() if "you modified it" in l][0][:100] if "you modified it" in e3 else ""))
            got = dict((n, pr.read(n)) for n in ("D", "P", "Q", "all"))
            want = dict(D=b"d2\n", P=b"P from d2\n", Q=b"q2\n", all=b"P from d2\nq2\n")
            if got != want:
                problems.append("after a following `redo-ifchange all`: %s, from scratch: %s" % (", ".join("%s=%r" % (n, got[n]) for n in sorted(got) if got[n] != want[n]), ", ".join("%s=%r" % (n, want[n]) for n in sorted(got) if got[n] != want[n])))
            tg = set(pr.run(["redo-targets"])[1].split())
            so = set(pr.run(["redo-sources"])[1].split())
            oo = set(pr.run(["redo-ood"])[1].split())
            lost = sorted({"D", "P", "Q", "all"} - tg)
            if lost or ({"D", "P", "Q", "all"} & so) or oo:
                problems.append("records lost: not listed by redo-targets %s, listed by redo-sources %s, out of date right after redo-ifchange all %s" % (lost, sorted({"D", "P", "Q", "all"} & so), sorted(oo)))
            pr.write("dsrc", "d3\n")
            rc4, o4, e4 = pr.run(["redo-ifchange", "all"], timeout=90)
            if rc4 != 0 or pr.read("P") != b"P from d3\n" or pr.read("all") != b"P from d3\nq2\n":
                problems.append("after a later edit of dsrc, redo-ifchange all (exit %d) leaves P=%r all=%r%s" % (rc4, pr.read("P"), pr.read("all"), " (%s)" % [l for l in e4.splitlines() if "you modified it" in l][0][:80] if "you modified it" in e4 else ""))
        return problems, info
    finally:
        pr.destroy()


def during_command_family(viol, stats):
    from concurrent.futures import ThreadPoolExecutor
    cases = [(c1, c2) for c1 in (["redo-ifchange", "P", "Q"], ["redo-ifchange", "all"], ["redo", "all"])
             for c2 in (["redo-ifchange", "P"], ["redo", "P"], ["redo", "D"], ["redo-ifchange", "D"])]
    with ThreadPoolExecutor(max_workers=6) as ex:
        res = list(ex.map(lambda c: command_during_command(*c), cases))
    stats["rounds"] += len(cases)
    stats["commands"] += 2 * len(cases)
    stats["during_command"] = dict(cases=len(cases), interleaving_reached=sum(1 for _, i in res if i.get("interleaving_reached")))
    for problems, info in res:
        if problems:
            p = write_replay("C16", "during-command", dict(kind="impl-monitor", info=info, problems=problems,
                             scenario="dsrc -> D -> P, qsrc -> Q (Q.do waits while the file hold exists), P, Q -> all.  redo-ifchange all; edit qsrc; start cmd1; when Q.do runs: edit dsrc, run cmd2 to its end; rm hold; wait for cmd1; redo-ifchange all; redo-targets/-sources/-ood; edit dsrc; redo-ifchange all"))
            viol.append(Violation("C16", p, "`%s` while `%s` is busy elsewhere (started before, ends later): %s" % (" ".join(info["cmd2"]), " ".join(info["cmd1"]), "; ".join(problems[:3]))))
            return


def second_request_during_oob(cmd1, cmd2):
    """The out-of-band path beside a second request:  ssrc -> S (redo-stamp) -> T -> top.  After an edit of ssrc, whether T
    must be rebuilt is known only after S has been rebuilt: the command keeps T's (resp. top's) lock and lets
    `redo-unlocked` rebuild S and then the target.  While S.do runs, cmd2 asks for the same target.  Monitor: both exit 0
    (every script succeeds), T.do and top.do each ran at most once per command and never two at a time, the contents are
    the from-scratch ones, nothing out of date, S T top known targets.  Returns (problems, info)."""
    import time
    pr = Project()
    try:
        pr.write("S.do", "redo-ifchange ssrc\necho x >s.started\n" + HOLD % "hold" + "cat ssrc\nredo-stamp <ssrc\n")
        for n, d in (("T", "S"), ("top", "T")):
            pr.write(n + ".do", 'redo-ifchange %s\necho "B $$" >>%s.runs\necho "%s from $(cat %s)" >"$3"\nsleep 0.5\necho "E $$" >>%s.runs\n' % (d, n, n, d, n))
        pr.write("ssrc", "s1\n")
        info = dict(cmd1=cmd1, cmd2=cmd2)
        rc, o, e = pr.run(["redo-ifchange", "top"], timeout=90)
        if rc != 0 or pr.read("top") != b"top from T from s1\n":
            return ["setup build failed (exit %d)" % rc], dict(info, stderr=e[-600:])
        pr.write("ssrc", "s2\n")
        for f in ("s.started", "T.runs", "top.runs"):
            pr.rm(f)
        pr.write("hold", "")
        p1 = _start(pr, cmd1, trace=".verif-trace1")
        reached = _wait_file(pr, "s.started", p1, 60)
        p2 = _start(pr, cmd2, trace=".verif-trace2")
        # cmd2 has arrived when it waits for a lock, or has started an out-of-band check or a script of its own
        t0, arrived = time.time(), False
        while time.time() - t0 < 20 and p2.poll() is None:
            tr = (pr.read(".verif-trace2") or b"").decode("utf-8", "replace")
            if re.search(r" (lock\.wait\.begin|job\.oob|job\.script) ", tr):
                arrived = True
                break
            time.sleep(0.05)
        time.sleep(0.4)
        both = p1.poll() is None and p2.poll() is None
        pr.rm("hold")
        rc1, e1 = _finish(p1, 90)
        rc2, e2 = _finish(p2, 90)
        oob = " job.oob " in (pr.read(".verif-trace1") or b"").decode("utf-8", "replace")
        info.update(rc1=rc1, rc2=rc2, interleaving_reached=bool(reached and arrived and both), out_of_band_check_by_cmd1=oob, stderr1=e1[-600:], stderr2=e2[-600:])
        problems = []
        for c, rc, e in ((cmd1, rc1, e1), (cmd2, rc2, e2)):
            if rc != 0:
                errs = [l for l in e.splitlines() if "modified" in l] or [l for l in e.splitlines() if l.startswith("redo:")]
                problems.append("`%s` exited %d although every script succeeds (%s)" % (" ".join(c), rc, (errs[0] if errs else (e.strip().splitlines() or [""])[-1])[:140]))
        for n in ("T", "top"):
            runs = [l.split() for l in (pr.read(n + ".runs") or b"").decode().splitlines()]
            info[n + "_runs"] = runs
            open_, overlap = set(), False
            for r in runs:
                if len(r) == 2 and r[0] == "B":
                    overlap = overlap or bool(open_)
                    open_.add(r[1])
                elif len(r) == 2:
                    open_.discard(r[1])
            nb = sum(1 for r in runs if r and r[0] == "B")
            if overlap:
                problems.append("two executions of %s.do at the same time (%s)" % (n, " ".join("".join(r) for r in runs)))
            elif nb > 2:
                problems.append("%s.do ran %d times for two commands" % (n, nb))
        if not problems:
            rc3, o3, e3 = pr.run(["redo-ifchange", "top"], timeout=90)
            if rc3 != 0 or "you modified it" in e3:
                problems.append("a following `redo-ifchange top` exits %d%s" % (rc3, " and takes a target redo built for a hand-edited file" if "you modified it" in e3 else ""))
            if pr.read("T") != b"T from s2\n" or pr.read("top") != b"top from T from s2\n":
                problems.append("afterwards T=%r top=%r, from scratch: 'T from s2', 'top from T from s2'" % (pr.read("T"), pr.read("top")))
            tg = set(pr.run(["redo-targets"])[1].split())
            oo = set(pr.run(["redo-ood"])[1].split())
            if not {"S", "T", "top"} <= tg or oo:
                problems.append("records lost: redo-targets %s, out of date right after redo-ifchange top %s" % (sorted(tg), sorted(oo)))
        return problems, info
    finally:
        pr.destroy()


def oob_family(viol, stats):
    from concurrent.futures import ThreadPoolExecutor
    cases = [(["redo-ifchange", "T"], ["redo-ifchange", "T"]), (["redo-ifchange", "T"], ["redo", "T"]),
             (["redo-ifchange", "top"], ["redo-ifchange", "top"]), (["redo-ifchange", "top"], ["redo-ifchange", "T"]),
             (["redo-ifchange", "T"], ["redo-ifchange", "top"])]
    with ThreadPoolExecutor(max_workers=5) as ex:
        res = list(ex.map(lambda c: second_request_during_oob(*c), cases))
    stats["rounds"] += len(cases)
    stats["commands"] += 2 * len(cases)
    stats["oob_second_request"] = dict(cases=len(cases), interleaving_reached=sum(1 for _, i in res if i.get("interleaving_reached")),
                                       out_of_band=sum(1 for _, i in res if i.get("out_of_band_check_by_cmd1")))
    for problems, info in res:
        if problems:
            p = write_replay("C16", "oob-second-request", dict(kind="impl-monitor", info=info, problems=problems,
                             scenario="ssrc -> S (S.do: redo-ifchange ssrc; wait while the file hold exists; cat ssrc; redo-stamp <ssrc) -> T -> top (scripts record B/E in T.runs, top.runs and take 0.4 s).  redo-ifchange top; edit ssrc; start cmd1; when S.do runs start cmd2; when cmd2 waits (or has started work): rm hold; wait for both"))
            viol.append(Violation("C16", p, "`%s` beside `%s` whose out-of-band check (redo-unlocked) is rebuilding S: %s" % (" ".join(info["cmd2"]), " ".join(info["cmd1"]), "; ".join(problems[:3]))))
            return


def slow_writer_family(viol, stats):
    """One command's write transactions are slow (the delay hook pauses inside them — a loaded disk, a process that is
    stopped for a moment — so the database's write lock is held for several hundred milliseconds at a time) while other
    commands, builds and queries, work on the same project.  Waiting is allowed, failing is not: every command exits 0
    and the results are those of the commands run one after the other."""
    pr = Project()
    try:
        for i in range(1, 7):
            pr.write("t%d.do" % i, "redo-ifchange src%d\ncat src%d\n" % (i, i))
            pr.write("src%d" % i, "v%d\n" % i)
        r0 = sched.run_cmds(pr, [["redo", "t1"]], timeout=60)[0]
        for delay in ("row.save=350", "txn.firstwrite=400", "row.save=150,txn.commit=300"):
            slow = ["redo", "-j2", "t2", "t3", "t4"]
            others = [["redo-ifchange", "t5"], ["redo-ood"], ["redo", "t6"], ["redo-targets"], ["redo-sources"], ["redo-ifchange", "t1"]]
            for i in range(2, 7):
                pr.write("src%d" % i, "edit %s %d\n" % (delay, i))
            import subprocess, time as _t
            from proj import clean_env
            ps = [subprocess.Popen(slow, cwd=pr.root, env=clean_env(dict(REDO_VERIF_DELAY=delay)), stdin=subprocess.DEVNULL, stdout=subprocess.PIPE, stderr=subprocess.PIPE, start_new_session=True)]
            _t.sleep(0.15)
            for c in others:
                ps.append(subprocess.Popen(c, cwd=pr.root, env=clean_env(), stdin=subprocess.DEVNULL, stdout=subprocess.PIPE, stderr=subprocess.PIPE, start_new_session=True))
                _t.sleep(0.1)
            res = []
            for c, p_ in zip([slow] + others, ps):
                try:
                    o, e = p_.communicate(timeout=120)
                    res.append((c, p_.returncode, e.decode("utf-8", "replace")))
                except subprocess.TimeoutExpired:
                    import signal
                    os.killpg(p_.pid, signal.SIGKILL)
                    p_.communicate()
                    res.append((c, -999, "timeout"))
            stats["rounds"] += 1
            stats["commands"] += len(res)
            stats["slow_writer_rounds"] = stats.get("slow_writer_rounds", 0) + 1
            bad = [(c, rc, e) for c, rc, e in res if rc != 0]
            contents = {("t%d" % i): pr.read("t%d" % i) for i in range(2, 7)}
            wrong = [t for t, v in contents.items() if v != ("edit %s %s\n" % (delay, t[1:])).encode()]
            if bad or wrong:
                c, rc, e = bad[0] if bad else (None, 0, "")
                p = write_replay("C16", "slow-writer", dict(kind="impl-monitor", delay=delay, slow_command=slow, others=others, results=[(c_, rc_, e_[-400:]) for c_, rc_, e_ in res], wrong_contents=wrong))
                viol.append(Violation("C16", p, "a command with slow write transactions (%s) beside six others: %s" %
                                      (delay, ("`%s` exited %s: %s" % (" ".join(c), rc, (e.strip().splitlines() or [""])[-1][:200])) if bad else "targets %s do not hold their new content" % wrong)))
                return
    finally:
        pr.destroy()


def run(ctx):
    rng = random.Random(ctx["seed"] * 13 + 16)
    viol = ctx.setdefault("violations", [])
    thorough = ctx["tier"] == "thorough"
    rounds = 40 if thorough else 8
    stats = dict(rounds=0, commands=0, processes=0, txns=0, deferred_writes=0, busy_errors=0)
    known_hit = []
    samples = []
    kf = {k["id"]: k for k in known_findings("C16") if k.get("status") == "known"}
    fresh_project_race(viol, stats, samples)
    if not viol:
        fresh_project_storm(viol, stats, 150 if thorough else 30)
    if not viol:
        same_target_twice(viol, stats)
    if not viol:
        vanished_target_queries(viol, stats)
    if not viol:
        during_command_family(viol, stats)
    if not viol:
        oob_family(viol, stats)
    if not viol:
        slow_writer_family(viol, stats)
    for rnd in range(rounds if not viol else 0):
        pr = Project()
        try:
            g = sched.gen_graph(rng, rng.randint(4, 8))
            for nm in g:
                g[nm]["dur"] = rng.choice([0, 5, 20])
            sched.write_project(pr, g)
            fresh = rng.random() < 0.4
            if not fresh:
                r0 = sched.run_cmds(pr, [["redo", "all"]], timeout=60)[0]
                if rng.random() < 0.5:
                    pr.rm(rng.choice(sorted(g)))          # a generated file vanished: the queries meet it
            k = rng.choice([2, 4, 8] if thorough else [2, 4, 6])
            names = sorted(g)
            cmds = []
            for i in range(k):
                c = rng.choice(["redo", "ifc", "ood", "targets", "sources", "log", "ifc"])
                if c == "redo":
                    cmds.append(["redo", "-j2", rng.choice(names + ["all"])])
                elif c == "ifc":
                    cmds.append(["redo-ifchange", rng.choice(names + ["all"])])
                elif c == "log":
                    cmds.append(["redo-log", "--no-pretty", "--no-status", "all"] if not fresh else ["redo-targets"])
                else:
                    cmds.append(["redo-" + c])
            rs = sched.run_cmds(pr, cmds, timeout=90)
            stats["rounds"] += 1
            stats["commands"] += len(cmds)
            trace = rs[0].trace
            per = txn_events(trace)
            reqs = ["sqltxn-replay " + (";".join(ev) if ev else "-") for ev in per.values()]
            ans = run_lines(MODEL, reqs) if reqs else []
            stats["processes"] += len(per)
            stats["txns"] += sum(1 for ev in per.values() for e in ev if e[:2] in ("bd", "bi"))
            # no lost update: a copy of a Files row is saved only inside the transaction that loaded it (RowCache acceptor)
            nsaves, stale = sched.replay_rows(trace)
            stats["row_saves"] = stats.get("row_saves", 0) + nsaves
            if stale:
                p = write_replay("C16", "stale-copy-%d" % rnd, dict(kind="trace-rejected-by-model", acceptor="RowCache.step (RedoModel/RowCache.lean)", scenario=dict(commands=cmds), pid=stale[0][0], answer=stale[0][1], events=stale[0][2]))
                viol.append(Violation("C16", p, "a process saves a copy of a Files row outside the transaction that loaded it (%s): columns written by another command in between are overwritten" % stale[0][1]))
                break
            scen = dict(commands=cmds, fresh_project=fresh, graph={n: v["deps"] for n, v in g.items()})
            for (pid, ev), a in zip(per.items(), ans):
                if a.startswith("reject"):
                    p = write_replay("C16", "trace-%d" % rnd, dict(kind="trace-rejected-by-model", scenario=scen, pid=pid, events=ev, answer=a))
                    viol.append(Violation("C16", p, "transaction trace rejected by the model: " + a, no_input=True))
                    break
                m = re.match(r"ok busy=(\d+)\s*(.*)", a)
                if m and int(m.group(1)) > 0:
                    stats["deferred_writes"] += int(m.group(1))
                    what = m.group(2)
                    if "init-insert-into-Runid" in what and "runid-in-deferred-txn" in kf:
                        msg = "ProcessState::init inserts the run id inside a DEFERRED transaction after reading the schema (state.rs db.transaction()): 'database is locked' possible when another command commits in between"
                        if msg not in known_hit:
                            known_hit.append(msg)
                    else:
                        p = write_replay("C16", "deferred-write-%d" % rnd, dict(kind="model-flags-busy-possible", scenario=scen, pid=pid, events=ev, answer=a))
                        viol.append(Violation("C16", p, "a process writes inside a DEFERRED transaction (%s): SQLITE_BUSY possible under a concurrent commit" % what))
                        break
            if viol:
                break
            # implementation monitors
            for c, r in zip(cmds, rs):
                if r.timed_out:
                    p = write_replay("C16", "hang-%d" % rnd, dict(kind="impl-monitor", scenario=scen, command=c, stderr=r.err[-1500:]))
                    viol.append(Violation("C16", p, "command %s did not finish within 90 s beside %d others" % (" ".join(c), k - 1)))
                    break
                if r.rc != 0 and not BUSY.search(r.err) and r.rc != 101:
                    # every script of these projects succeeds: no failure is attributable to a build script
                    p = write_replay("C16", "spurious-%d" % rnd, dict(kind="impl-monitor", scenario=scen, command=c, rc=r.rc, stderr=r.err[-1500:]))
                    viol.append(Violation("C16", p, "command %s exited %s beside %d others although every script succeeds: %s" % (" ".join(c), r.rc, k - 1, r.err.strip().splitlines()[-1][:160] if r.err.strip() else "")))
                    break
                if BUSY.search(r.err) or (r.rc == 101):
                    stats["busy_errors"] += 1
                    if "failed to insert new Runid" in r.err and "runid-in-deferred-txn" in kf:
                        msg = "`%s` beside %d other commands: failed to insert new Runid: database is locked" % (" ".join(c), k - 1)
                        if not any("failed to insert new Runid" in x for x in known_hit):
                            known_hit.append(msg)
                        continue
                    if "panicked" in r.err and "my_tokens >= 1" in r.err and "release-mine-without-token" in {x["id"] for x in known_findings("C09") if x.get("status") == "known"}:
                        continue
                    p = write_replay("C16", "busy-%d" % rnd, dict(kind="impl-monitor", scenario=scen, command=c, rc=r.rc, stderr=r.err[-1500:]))
                    viol.append(Violation("C16", p, "command %s failed with a database/lock error beside %d others: %s" % (" ".join(c), k - 1, (BUSY.search(r.err).group(0) if BUSY.search(r.err) else "abort"))))
                    break
            if viol:
                break
            db = sqlite3.connect("file:%s?mode=ro" % pr.path(".redo/db.sqlite3"), uri=True, timeout=30)
            ic = db.execute("pragma integrity_check").fetchall()
            db.close()
            if ic != [("ok",)]:
                p = write_replay("C16", "integrity-%d" % rnd, dict(kind="impl-monitor", scenario=scen, integrity=ic))
                viol.append(Violation("C16", p, "integrity_check: %r" % ic))
                break
            # the records written by each command are all present afterwards: bring everything up to date, then every
            # node of the graph is a known target, none is taken for a source, nothing is out of date
            r1 = sched.run_cmds(pr, [["redo-ifchange", "all"]], timeout=90)[0]
            rc1, e1 = r1.rc, r1.err
            rc2, tg, e2 = pr.run(["redo-targets"])
            rc3, so, e3 = pr.run(["redo-sources"])
            rc4, oo, e4 = pr.run(["redo-ood"])
            tg, so, oo = set(tg.split()), set(so.split()), set(oo.split())
            lost = sorted(n for n in g if n not in tg)
            wrong = sorted(n for n in g if n in so)
            stats["state_checks"] = stats.get("state_checks", 0) + 1
            if rc1 != 0 or lost or wrong or (oo & set(g)):
                p = write_replay("C16", "records-%d" % rnd, dict(kind="impl-monitor", scenario=scen, ifchange_all_rc=rc1, not_listed_as_targets=lost, listed_as_sources=wrong, out_of_date=sorted(oo), stderr=e1[-800:]))
                viol.append(Violation("C16", p, "after %d concurrent commands: redo-ifchange all exit %d; targets missing from redo-targets %s; targets listed as sources %s; out of date %s" % (k, rc1, lost, wrong, sorted(oo & set(g)))))
                break
            if len(samples) < 2:
                samples.append(dict(scenario=scen, rcs=[r.rc for r in rs], a_process_trace=list(per.values())[0][:10], answer=ans[0] if ans else None))
        finally:
            pr.destroy()
    return dict(evaluations=stats["txns"], distinct_nontrivial=stats["commands"],
                rule="rounds of 2-8 simultaneously started commands (redo -j2, redo-ifchange, redo-ood/targets/sources, redo-log) on generated projects, 40% on a fresh directory (first commands create .redo); every process's transaction events replayed by the Lean acceptor; 12 pairs (long first command, edit + second command during it) and 5 pairs (out-of-band check, second request for the target) with exit-status / records / contents monitors; distinct = commands",
                samples=samples, traces_validated_against_impl=stats["processes"], disagreements_checked=stats["txns"], distribution=stats, known_hit=known_hit)
