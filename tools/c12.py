"""C12 — dependency cycles end in an error, never in a hang.
Correspondence: (1) the Deps differential on histories over cyclic graphs at -j1 (model vs real: status, executed
scripts, records); (2) implementation monitor: generated graphs with a cycle of length 1..5 behind acyclic
prefixes and siblings, every entry target, at -j1 and -j3, under a wall-clock bound: the command must
terminate, exit non-zero, and report a cyclic dependency (status 208 in the chain / message)."""
import random
from common import *
from proj import Project
import sched, depsgen, deps_check

ASSUMPTIONS = [
    "termination is observed under a wall-clock bound (20 s for graphs that build in well under a second); the model's functions are total by construction",
    "cross-process cycle detection relies on REDO_CYCLES (ancestors only); the -j>1 cross-branch case is a recorded finding",
]


def cyclic_case(rng):
    """A depsgen.Case whose graph contains a cycle of length L reached through a prefix."""
    L = rng.randint(1, 4)
    npre = rng.randint(0, 2)
    nsib = rng.randint(0, 2)
    names = {0: "//ALWAYS", 1: "s1"}
    fid = 2
    tg = []
    for i in range(npre + L + nsib):
        names[fid] = "t%d" % fid
        tg.append(fid)
        fid += 1
    pre, cyc, sib = tg[:npre], tg[npre:npre + L], tg[npre + L:]
    rules, spec = {}, {}
    for t in tg:
        names[fid] = names[t] + ".do"
        spec[t] = fid
        rules[t] = [fid]
        fid += 1
    ops = [("w", 1, 0)]
    v = [10]

    def script(t, deps):
        v[0] += 1
        cmds = [deps] if deps and rng.random() < 0.7 else [[d] for d in deps]
        ops.append(("p", v[0], dict(ifchange=cmds, reads=[d for d in deps if d not in cyc or True][:0] + [1] if 1 in deps else [], tag=rng.randint(1, 9), outMode=1)))
        ops.append(("w", spec[t], v[0]))
    for i, t in enumerate(pre):
        nxt = pre[i + 1] if i + 1 < len(pre) else cyc[0]
        script(t, [1, nxt] + ([rng.choice(sib)] if sib and rng.random() < 0.5 else []))
    closed_at = 0
    late = L >= 2 and rng.random() < 0.5     # the cycle is closed by a later edit of the last member's script
    for i, t in enumerate(cyc):
        nxt = cyc[(i + 1) % L]
        d = [nxt] if rng.random() < 0.5 else [1, nxt]
        if sib and rng.random() < 0.4:
            d.insert(0, rng.choice(sib))
        if late and i == L - 1:
            script(t, [1])
        else:
            script(t, d)
    for t in sib:
        script(t, [1])
    if late:
        # build the still acyclic chain from several entry points, then close the cycle
        ops.append(("ifc", [cyc[0]], False))
        if pre:
            ops.append(("ifc", [pre[0]], False))
        script(cyc[-1], [1, cyc[0]])
    closed_at = len(ops)
    entries = pre[:1] + cyc
    for e in rng.sample(entries, min(len(entries), 3)):
        ops.append(("ifc", [e], False))
    if sib:
        ops.append(("ifc", [rng.choice(sib), cyc[0]], rng.random() < 0.5))
    ops.append(("redo", [rng.choice(cyc)], False))
    ops.append(("ood",))
    ops.append(("targets",))
    ops.append(("sources",))
    return depsgen.Case(names, rules, ops), dict(L=L, pre=pre, cyc=cyc, sib=sib, closed_at=closed_at)


def cycles_level(ctx, rng, viol):
    """The REDO_CYCLES wire format (src/cycles.rs add/check through the hook, in-process) against the Lean model
    Cycles.add/check: random initial values (unset, empty, id lists with repeats, stray colons) and operation
    sequences over ids that share prefixes and digits (1, 10, 100, 11, 2, 21 …): the check answers must be equal and the
    final values equal as sets of items (the order in which a hash set is written back is unspecified)."""
    thorough = ctx["tier"] == "thorough"
    n = 4000 if thorough else 600
    pool = ["1", "10", "100", "101", "11", "2", "21", "12", "3", "30", "300", "7", "70", "77", "1000", "999", "9", "99"]
    lines = []
    for i in range(n):
        r = rng.random()
        if r < 0.15:
            v = "!"
        elif r < 0.22:
            v = hx("")
        else:
            its = [rng.choice(pool) for _ in range(rng.randint(1, 12))]
            if rng.random() < 0.1:
                its.insert(rng.randrange(len(its) + 1), "")
            v = hx(":".join(its))
        ops = []
        for _ in range(rng.randint(1, 14)):
            f = rng.choice(pool) if rng.random() < 0.9 else str(rng.randint(1, 3000))
            ops.append(("a" if rng.random() < 0.45 else "c") + hx(f))
        lines.append("cycles %s %s" % (v, ",".join(ops)))
    m = run_lines(MODEL, lines)
    im = run_lines(RH, lines)
    stats = dict(requests=n, checks=0, cyclic_answers=0, adds=sum(l.count(",a") + (1 if " a" in l else 0) for l in lines))
    def canon(ans):
        bits, fin = ans.split(" ")
        items = None if fin == "!" else sorted(set(unhx(fin).decode().split(":")))
        return bits, items
    for l, a, b in zip(lines, m, im):
        if "bad-op" in a or "bad-op" in b or "panic" in b or canon(a) != canon(b):
            # failing-input search: the property-level meaning of a difference is a cycle that is not detected (or a
            # false cycle): look for the first check whose answers differ
            p = write_replay("C12", "cycles-corr", dict(kind="model-vs-impl", layer="Cycles", request=l, model=a, implementation=b,
                                                        meaning="REDO_CYCLES add/check differ from the model: a lock held by an ancestor may go unnoticed (hang) or a free one be refused (false 208)"))
            ba, bb = a.split(" ")[0], b.split(" ")[0]
            viol.append(Violation("C12", p, "REDO_CYCLES bookkeeping differs from the model on %s: check answers %s (model) vs %s (implementation)" % (l, ba, bb), no_input=(ba == bb)))
            break
        bits = a.split(" ")[0]
        if bits != "-":
            stats["checks"] += len(bits); stats["cyclic_answers"] += bits.count("1")
    return stats


def run(ctx):
    rng = random.Random(ctx["seed"] * 17 + 12)
    viol = ctx.setdefault("violations", [])
    thorough = ctx["tier"] == "thorough"
    ncases = 150 if thorough else 24
    defects = deps_check.current_defects()
    cyc_stats = cycles_level(ctx, random.Random(ctx["seed"] * 5 + 3), viol)
    if viol:
        return dict(evaluations=cyc_stats["requests"], distinct_nontrivial=0, rule="REDO_CYCLES level only (disagreement)", samples=[], distribution=dict(cycles=cyc_stats))
    made = [cyclic_case(rng) for _ in range(ncases)]
    cases = [m[0] for m in made]
    model, real = deps_check.run_batch(cases, defects)
    stats = dict(cases=len(cases), commands=0, cyclic_commands=0, lengths={}, parallel_runs=0, hangs=0)
    samples = []
    known_hit = []
    kf = {k["id"] for k in known_findings("C12") if k.get("status") == "known"}
    for ci, ((c, info), m, r) in enumerate(zip(made, model, real)):
        stats["lengths"][str(info["L"])] = stats["lengths"].get(str(info["L"]), 0) + 1
        for j, (o, l) in enumerate(zip(c.ops, r)):
            if o[0] in ("ifc", "redo"):
                stats["commands"] += 1
                p = deps_check.parse_line(l)
                reaches = j >= info["closed_at"] and any(t in info["cyc"] or t in info["pre"] for t in o[1])
                if reaches:
                    stats["cyclic_commands"] += 1
                    bad = None
                    if p["rv"] == -999:
                        bad = "did not terminate within the bound"
                        stats["hangs"] += 1
                    elif p["panic"]:
                        bad = "a redo process aborted on an internal assertion instead of reporting the cycle"
                    elif p["rv"] == 0:
                        bad = "exited 0 although its targets lead into a dependency cycle"
                    if bad:
                        pth = write_replay("C12", "impl-%d" % ci, dict(kind="impl-monitor", case=c.to_json(), names=c.names, info=info, op=o, line=l[:600]))
                        viol.append(Violation("C12", pth, "`%s` on a graph with a cycle of length %d %s" % (depsgen.enc_op(o), info["L"], bad)))
                        break
        if viol:
            break
        if m != r:
            j = next(j for j, (a, b) in enumerate(zip(m, r)) if a != b)
            pth = write_replay("C12", "corr-%d" % ci, dict(kind="model-vs-impl", layer="Deps", case=c.to_json(), names=c.names, info=info, op=c.ops[j], model=m[j], impl=r[j]))
            viol.append(Violation("C12", pth, "model and implementation disagree on a cyclic history (op %d: %s)" % (j, depsgen.enc_op(c.ops[j])), no_input=True))
            break
        if len(samples) < 2:
            samples.append(dict(names=c.names, info=info, ops=[depsgen.enc_op(o) for o in c.ops], statuses=[deps_check.parse_line(l)["rv"] for l in r]))
    # parallel entry into cycles (single chain and two branches)
    if not viol:
        for rnd in range(12 if thorough else 4):
            L = rng.randint(2, 4)
            pr = Project()
            try:
                cyc = ["c%d" % i for i in range(L)]
                for i, n in enumerate(cyc):
                    pr.write(n + ".do", "redo-ifchange %s\necho %s\n" % (cyc[(i + 1) % L], n))
                pr.write("top.do", "redo-ifchange sib %s\necho top\n" % cyc[0])
                pr.write("sib.do", "sleep 0.05; echo sib\n")
                # single chain at -j3: must be detected
                r = sched.run_cmds(pr, [["redo", "-j3", "top"]], timeout=20)[0]
                stats["parallel_runs"] += 1
                if r.timed_out or r.rc == 0 or "panicked" in r.err:
                    pth = write_replay("C12", "par-%d" % rnd, dict(kind="impl-monitor", L=L, argv=["redo", "-j3", "top"], rc=r.rc, stderr=r.err[-1500:]))
                    viol.append(Violation("C12", pth, "`redo -j3 top` on a cycle of length %d: %s" % (L, "hang" if r.timed_out else "exit 0" if r.rc == 0 else "panic")))
                    break
                wans, wev, wreach = sched.replay_waits(r.trace, dict([(n, [cyc[(i + 1) % L]]) for i, n in enumerate(cyc)] + [("top", ["sib", cyc[0]]), ("sib", [])]))
                stats["wait_replays"] = stats.get("wait_replays", 0) + 1
                if not re.match(r"ok .* deadlocked=0 stuckstates=0 ", wans):
                    pth = write_replay("C12", "par-wait-%d" % rnd, dict(kind="trace-vs-model", L=L, answer=wans, events=wev, reach=wreach))
                    viol.append(Violation("C12", pth, "wait-for trace of a terminating cyclic build not accepted by the model: %s" % wans, no_input=True))
                    break
                if "cyclic dependency" not in r.err and " 208 " not in r.err:
                    pth = write_replay("C12", "par-msg-%d" % rnd, dict(kind="impl-monitor", L=L, rc=r.rc, stderr=r.err[-1500:]))
                    viol.append(Violation("C12", pth, "cycle of length %d at -j3 ended non-zero but no process identified a cyclic dependency" % L))
                    break
                # two branches entering the cycle at different points (recorded finding: hangs)
                if L >= 3:
                    r2 = sched.run_cmds(pr, [["redo", "-j3", "top", cyc[1]]], timeout=12)[0]
                    stats["parallel_runs"] += 1
                    graph = dict([(n, [cyc[(i + 1) % L]]) for i, n in enumerate(cyc)] + [("top", ["sib", cyc[0]]), ("sib", [])])
                    wans, wev, wreach = sched.replay_waits(r2.trace, graph)
                    stats["wait_replays"] = stats.get("wait_replays", 0) + 1
                    explained = bool(re.match(r"ok alive=\d+ blocked=[1-9]\d* deadlocked=1 ", wans))
                    if r2.timed_out and explained:
                        stats["hangs_explained_by_model"] = stats.get("hangs_explained_by_model", 0) + 1
                    if r2.timed_out:
                        stats["hangs"] += 1
                        if "cross-branch-cycle-hangs" in kf and explained:
                            msg = "`redo -j3 top %s` with top->c0->c1->…->c0: two branches enter the cycle, each waits for a lock held by the other's ancestor; REDO_CYCLES only lists ancestors -> hang" % cyc[1]
                            if msg[:40] not in [k[:40] for k in known_hit]:
                                known_hit.append(msg)
                        else:
                            # a hang the wait-for model does not end deadlocked on (or rejects) is not the recorded finding
                            pth = write_replay("C12", "cross-%d" % rnd, dict(kind="impl-monitor", L=L, argv=["redo", "-j3", "top", cyc[1]], stderr=r2.err[-2500:], waits_answer=wans, waits_events=wev, reach=wreach))
                            viol.append(Violation("C12", pth, "`redo -j3 top %s` hangs on a cycle of length %d entered from two branches" % (cyc[1], L)))
                            break
                    elif r2.rc == 0:
                        pth = write_replay("C12", "cross0-%d" % rnd, dict(kind="impl-monitor", L=L, stderr=r2.err[-1500:]))
                        viol.append(Violation("C12", pth, "cyclic build entered from two branches exits 0"))
                        break
            finally:
                pr.destroy()
    # a cycle that closes on a target which `redo-stamp` has already marked (checked, checksum unchanged) in this run:
    # the mark must not make the request for it look like a request for a finished target
    if not viol:
        for entry, j in (("a", "-j1"), ("a", "-j3"), ("b", "-j1"), ("top", "-j1")):
            pr = Project()
            try:
                pr.write("src", "1\n")
                pr.write("a.do", "redo-ifchange src\ncat src\nredo-stamp <src\nredo-ifchange b\n")
                pr.write("b.do", "redo-ifchange src\necho b\n")
                pr.write("top.do", "redo-ifchange a\necho top\n")
                r0 = sched.run_cmds(pr, [["redo", "top"]], timeout=30)[0]
                pr.write("b.do", "redo-ifchange a\necho b\n")
                r = sched.run_cmds(pr, [["redo", j, entry]], timeout=15)[0]
                stats["parallel_runs"] += 1
                stats["stamped_cycle_runs"] = stats.get("stamped_cycle_runs", 0) + 1
                if r0.rc != 0 or r.timed_out or r.rc == 0 or "panicked" in r.err or ("cyclic dependency" not in r.err and " 208" not in r.err):
                    pth = write_replay("C12", "stamped-cycle-%s%s" % (entry, j), dict(kind="impl-monitor", argv=["redo", j, entry], rc=r.rc, setup_rc=r0.rc, stderr=r.err[-1500:],
                        scenario="a.do: redo-ifchange src; cat src; redo-stamp <src; redo-ifchange b.  b.do: redo-ifchange src.  Built once; b.do edited to `redo-ifchange a`; rebuild"))
                    viol.append(Violation("C12", pth, "cycle a -> b -> a where a was already marked by redo-stamp in this run (`redo %s %s`): %s" % (j, entry, "hang" if r.timed_out else "exit 0" if r.rc == 0 else "setup failed" if r0.rc else "panic" if "panicked" in r.err else "non-zero but no cyclic dependency identified")))
                    break
            finally:
                pr.destroy()
    # a cycle that closes through an out-of-band (redo-unlocked) rebuild back to the target whose lock the caller holds
    if not viol:
        for j in ("-j1", "-j3"):
            pr = Project()
            try:
                pr.write("T.do", "redo-ifchange D\ncat D\n")
                pr.write("D.do", 'redo-ifchange src\ncat src >"$3"\nredo-stamp <"$3"\n')
                pr.write("src", "1\n")
                r0 = sched.run_cmds(pr, [["redo-ifchange", "T"]], timeout=30)[0]
                pr.write("D.do", 'redo-ifchange src T\ncat src >"$3"\nredo-stamp <"$3"\n')
                r = sched.run_cmds(pr, [["redo", j, "T"]] if j != "-j1" else [["redo-ifchange", "T"]], timeout=15)[0]
                stats["parallel_runs"] += 1
                stats["oob_cycle_runs"] = stats.get("oob_cycle_runs", 0) + 1
                if r0.rc != 0 or r.timed_out or r.rc == 0 or "panicked" in r.err:
                    pth = write_replay("C12", "oob-cycle" + j, dict(kind="impl-monitor", argv=["redo-ifchange" if j == "-j1" else "redo " + j, "T"], rc=r.rc, setup_rc=r0.rc, stderr=r.err[-1500:],
                                                                   scenario="T.do: redo-ifchange D; D (checksummed) built once; D.do edited to `redo-ifchange src T`; rebuild of T"))
                    viol.append(Violation("C12", pth, "cycle closed through an out-of-band rebuild back to its own target (%s): %s" % (j, "hang" if r.timed_out else "exit 0" if r.rc == 0 else "setup failed" if r0.rc else "panic")))
                    break
                if "cyclic dependency" not in r.err and " 208" not in r.err:
                    pth = write_replay("C12", "oob-cycle-msg" + j, dict(kind="impl-monitor", rc=r.rc, stderr=r.err[-1500:]))
                    viol.append(Violation("C12", pth, "cycle through an out-of-band rebuild (%s) ended non-zero but no process identified a cyclic dependency" % j))
                    break
            finally:
                pr.destroy()
    return dict(evaluations=stats["commands"] + stats["parallel_runs"], distinct_nontrivial=stats["cyclic_commands"],
                rule="generated graphs with a cycle of length 1-4 behind an acyclic prefix of length 0-2 and 0-2 acyclic siblings; redo-ifchange from several entry targets, with a sibling first, redo of a cycle member, then the listings (all at -j1, compared with the model op by op); plus -j3 runs entering the cycle from one chain and from two branches under a 20 s bound; non-trivial = commands whose targets reach the cycle",
                samples=samples, disagreements_checked=stats["commands"], traces_validated_against_impl=len(cases), distribution=dict(histories=stats, redo_cycles=cyc_stats), known_hit=known_hit)
