"""C18 — build output is logged completely, once, under the right target.
Correspondence: (1) record level, in-process: Meta::parse / Display / parse_done_text / is_valid_log_line;
(2) replay level: synthetic log forests written into a real .redo directory and replayed by the real
`redo-log -r [-u]`, compared with the model's catlog; (3) live level (implementation monitor): real builds
at -j1..3 whose scripts write numbered lines; every line must appear once, in order, under its target, both
in the live output and in a later replay."""
import random, re, sqlite3
from common import *
from proj import Project

ASSUMPTIONS = [
    "timestamps are opaque canonical tokens digits.dddd (floats are never compared); pids are canonical decimal tokens",
    "replay model covers two directories (record texts are spellings relative to the directory of the log's target, roots are spellings relative to the project directory; names stay inside the project, no absolute record texts, no symlinks), --details, no --debug-locks",
    "the --follow loop is modelled by LogFollow (one target, arbitrary interleaving with its builder); every follower session of every live build is replayed through the acceptor LogFollow.Obs (hooks log.enter/open/check/stop, job.logfile, lock events): reads and appends are not traced, the conditions of the completeness theorem are",
    "lines are compared modulo trailing whitespace (clean_line strips it by design)",
    "a stderr line that parses as a record is consumed as a record (known finding inbandRecordsInStderr); generated script output avoids the @@REDO: prefix except in the dedicated scenario",
    "several processes append to one log (the script, what it runs in the background, every redo-ifchange it starts): the models treat a record and a script line as atomic appends; checked at the syscall level (split_records: every record reaches the log / the viewer's pipe in one write(2)); scripts of the concurrent-writers scenario write whole lines with one write each, the order between concurrent writers is not checked",
]

KINDS = ["do", "done", "unchanged", "waiting", "locked", "unlocked", "check", "warning", "error", "x", ""]


def gen_line(rng):
    r = rng.random()
    kind = rng.choice(KINDS)
    pid = rng.choice(["1", "0", "31924", "-5", "+7", "007", "2147483647", "2147483648", "-2147483648", "-2147483649", "", "x", "1 ", "-0"])
    ts = rng.choice(["1790659939.2275", "0.0000", "12.5", "1e3", ".5", "5.", ".", "inf", "NaN", "-1.0000", "abc", "", "1.00001", "123456789012.1234", "00.1000"])
    text = rng.choice(["a", "0 a", "0  a b", "all line 1", "", "x@@ y", "@@REDO:do:1:1.0000@@ nested", "é ü", "-1 t", "12", "999999999999 t"])
    if r < 0.55:
        return "@@REDO:%s:%s:%s@@ %s" % (kind, pid, ts, text)
    if r < 0.65:
        return "@@REDO:%s:%s@@ %s" % (kind, pid, text)
    if r < 0.7:
        return "@@REDO:%s@@ %s" % (kind, text)
    if r < 0.75:
        return "@@REDO:%s:%s:%s:extra:fields@@ %s" % (kind, pid, ts, text)
    if r < 0.8:
        return "@@REDO:%s:%s:%s@@" % (kind, pid, ts)
    if r < 0.85:
        return " @@REDO:do:1:1.0000@@ a"
    if r < 0.9:
        return "@@REDO:d@o:1:1.0000@@ a"
    if r < 0.95:
        return "@@REDO:do:1:1.0000@@ a\nb"
    return rng.choice(["plain text", "", "@@REDO", "@@REDO:", "@@ ", "@@REDO:a:b"])


def record_level(ctx, rng, viol):
    n = 40000 if ctx["tier"] == "thorough" else 6000
    lines = []
    for _ in range(n):
        l = gen_line(rng)
        lines.append("meta-parse " + hx(l))
    fmt = []
    for _ in range(n // 3):
        kind = rng.choice(["do", "done", "unchanged", "x-y", "", "k k"])
        pid = str(rng.choice([0, 1, 31924, -5, 2147483647, -2147483648, rng.randrange(1, 10 ** 6)]))
        ts = "%d.%04d" % (rng.choice([0, 1, 1790659939, rng.randrange(0, 10 ** 10)]), rng.randrange(0, 10000))
        text = rng.choice(["a", "0 a", "", "x@@ y", "@@REDO:do:1:1.0000@@ n", "é ü", "tab\there", "  lead", "trail  "])
        fmt.append((kind, pid, ts, text))
        lines.append("meta-format %s %s %s %s" % (hx(kind), hx(pid), hx(ts), hx(text)))
    for _ in range(n // 6):
        t = rng.choice(["0 a", "12 a b", "-1 x", "a", "", " a", "0  a", "+3 q", "99999999999 a", "0", "0 ", "1\ta"])
        lines.append("done-text " + hx(t))
        lines.append("valid-line " + hx(rng.choice(["a\n", "\n", "", "a", "a\nb\n", "\n\n", "a\n ", "é\n"])))
    m = run_lines(MODEL, lines)
    impl = run_lines(RH, lines)
    diffs = []
    for l, a, b in zip(lines, m, impl):
        if a == b:
            continue
        if l.startswith("meta-parse") and a.startswith("ok") and b.startswith("ok"):
            fa, fb = a.split(), b.split()
            if fa[3] == "*" and fa[:3] + fa[4:] == fb[:3] + fb[4:]:
                continue  # non-canonical timestamp token: compared as accepted/rejected only
        diffs.append((l, a, b))
    # implementation monitor: parse(format(r)) = r
    fl = [(f, r) for f, r in zip(fmt, impl[n:n + len(fmt)])]
    back = run_lines(RH, ["meta-parse " + r for _, r in fl])
    for (f, r), b in zip(fl, back):
        want = "ok %s %s %s %s" % (hx(f[0]), hx(f[1]), hx(f[2]), hx(f[3]))
        if b != want:
            p = write_replay("C18", "roundtrip", dict(kind="impl-monitor", clause="records survive formatting and re-parsing", record=f, line=unhx(r).decode(), reparsed=b, want=want))
            viol.append(Violation("C18", p, "record %r does not survive format+parse" % (f,)))
            break
    if diffs and not viol:
        l, a, b = diffs[0]
        p = write_replay("C18", "corr-record", dict(kind="model-vs-impl", layer="LogRec", request=l, decoded=unhx(l.split()[1]).decode("utf-8", "replace"), model=a, impl=b, count=len(diffs)))
        viol.append(Violation("C18", p, "record-level model/implementation disagreement on %d requests" % len(diffs), no_input=True))
    accepted = sum(1 for x in impl[:n] if x.startswith("ok"))
    return dict(requests=len(lines), parse_accepted=accepted, parse_rejected=n - accepted, roundtrips=len(fmt)), \
        [dict(request=lines[i], decoded=unhx(lines[i].split()[1]).decode("utf-8", "replace"), model=m[i], impl=impl[i]) for i in (0, 1, n + 2)]


PRETTY_KINDS = ["unchanged", "check", "do", "done", "resumed", "locked", "waiting", "unlocked", "error", "warning", "debug", "other", "", "Done", "do ", "x:y"]


def pretty_text(rng):
    if rng.random() < 0.3:
        return rng.choice(["a", "sub/x.o", "0 a", "1 b c", "-3 q", "00 z", "+0 p", "7", "x  ", "é/ü", "@@ t", "2147483648 w", " 1 t", "1  t", "1", "32 sub/../x"])
    return "".join(rng.choice("ab /.01-+@: é()\t") for _ in range(rng.randint(0, 8)))


def pretty_input(rng):
    """One line as PrettyLog::write_line may receive it: mostly a well-formed record of some kind, sometimes with text in
    front of it, damaged in one place, or no record at all."""
    c = rng.random()
    k = rng.choice(PRETTY_KINDS)
    pid = rng.choice(["1", "31924", "-5", "0", "1234567", "+7", "007", "x", "", "99999"])
    ts = rng.choice(["0.0000", "1790659939.3597", "1e3", "nan", ".5", "1.", "abc", ""])
    if c < 0.5:
        pid, ts = rng.choice(["1", "31924", "0", "1234567"]), "1790659939.3597"
    rec = "@@REDO:%s:%s:%s@@ %s" % (k, pid, ts, pretty_text(rng))
    if c < 0.62:
        return rec, "record"
    if c < 0.72:
        return pretty_text(rng) + rec, "record-after-text"
    if c < 0.77:
        return "@@REDO:bad@@ " + rec, "second-prefix"
    if c < 0.82:
        return rec.replace("@@ ", "@@", 1), "damaged"
    if c < 0.86:
        return "@@REDO:" + k + ":" + pid + "@@ " + pretty_text(rng), "damaged"
    if c < 0.9:
        return "@@REDO:%s:%s:%s:extra@@ %s" % (k, pid, ts, pretty_text(rng)), "extra-field"
    return pretty_text(rng) + pretty_text(rng), "plain"


def pretty_level(ctx, rng, viol):
    """`PrettyLog::write_line` / `RawLog::write_line` (hook 2066cb1) against `Pretty.writeLine` / `rawLine`, in process:
    every record kind under every verbosity configuration, depths, with and without colour escapes."""
    n = 30000 if ctx["tier"] == "thorough" else 5000
    lines, shapes = [], []
    for _ in range(n):
        l, shape = pretty_input(rng)
        d, v, x = rng.choice([0, 0, 0, 1, 2, -1]), rng.choice([0, 0, 1, -1]), rng.choice([0, 0, 1])
        lines.append("pretty-line %d %d %d %d %d %d %d %d %s" % (d, rng.random() < .4, rng.random() < .3, v, x, rng.random() < .5,
                                                                  rng.choice([0, 0, 1, 2, 7, 40]), rng.random() < .3, hx(l)))
        shapes.append(shape)
    for _ in range(n // 10):
        lines.append("raw-line " + hx(pretty_input(rng)[0]))
    m = run_lines(MODEL, lines)
    impl = run_lines(RH, lines)
    diffs = [(l, a, b) for l, a, b in zip(lines, m, impl) if a != b]
    stats = dict(requests=len(lines), shown=sum(1 for a in impl[:n] if a not in ("-", "bad-op", "panic")), suppressed=sum(1 for a in impl[:n] if a == "-"),
                 shapes=dict((k, shapes.count(k)) for k in sorted(set(shapes))))
    # implementation monitor (no model involved): a line without the record prefix is written back unchanged
    for l, b, shape in zip(lines[:n], impl[:n], shapes):
        raw = unhx(l.split()[-1])
        if b"@@REDO:" not in raw and unhx(b) != raw + b"\n":
            p = write_replay("C18", "pretty-plain-line", dict(kind="impl-monitor", clause="every stderr line appears exactly once, unchanged, in the live output", request=l, line=raw.decode("utf-8", "replace"), written=unhx(b).decode("utf-8", "replace")))
            viol.append(Violation("C18", p, "PrettyLog::write_line does not write the plain line %r as it is (wrote %r)" % (raw, unhx(b))))
            return stats
    if diffs:
        l, a, b = diffs[0]
        raw = unhx(l.split()[-1]).decode("utf-8", "replace")
        p = write_replay("C18", "corr-pretty", dict(kind="model-vs-impl", layer="Pretty.writeLine", request=l, line=raw, model=unhx(a).decode("utf-8", "replace") if a not in ("bad-op",) else a,
                                                    impl=unhx(b).decode("utf-8", "replace") if b not in ("bad-op", "panic") else b, count=len(diffs)))
        # failing-input search: a failed `done` record that is not shown, or a plain part of a line that is lost
        bad = None
        for l2, a2, b2 in diffs:
            raw2 = unhx(l2.split()[-1]).decode("utf-8", "replace")
            mm = re.match(r"^@@REDO:done:\d+:[0-9.]+@@ ([1-9]\d*) (\S.*)$", raw2)
            if b2 == "panic":
                bad = "PrettyLog::write_line panics on %r" % raw2
                break
            if mm and ("%s (exit %s)" % (mm.group(2), mm.group(1))) not in unhx(b2).decode("utf-8", "replace"):
                bad = "the failure record %r is not shown as '%s (exit %s)'" % (raw2, mm.group(2), mm.group(1))
                break
        viol.append(Violation("C18", p, "PrettyLog::write_line differs from the model on %d of %d lines%s" % (len(diffs), len(lines), "; " + bad if bad else ""), no_input=not bad))
    return stats


def parse_out(text):
    out = []
    for l in text.split("\n"):
        mm = re.match(r"^@@REDO:([^:@]*):(-?\d+):([0-9.]+)@@ (.*)$", l)
        if mm:
            out.append(("m", mm.group(1), mm.group(4)))
        else:
            out.append(("r", l))
    if out and out[-1] == ("r", ""):
        out.pop()
    return out


NAMES = ["t0", "t1", "t2", "sub/t3", "sub/t4", "sub/t5"]


def spell(rng, target, frm):
    """A spelling of the project-relative cleaned name `target`, relative to the directory `frm` ("" or "sub").
    Returns (text, trivial): trivial = the text is the cleaned project-relative name itself."""
    tdir, _, tbase = target.rpartition("/")
    if tdir == frm:
        plain = tbase
    elif frm == "":
        plain = target
    else:
        plain = "../" + target
    r = rng.random()
    if r < 0.45:
        s = plain
    elif r < 0.6:
        s = "./" + plain
    elif r < 0.72:
        # through the other directory and back
        s = ("sub/../" + plain) if frm == "" else ("../sub/" + plain)
    elif r < 0.8:
        s = plain.replace("/", "//", 1) if "/" in plain else "./" + plain
    elif r < 0.88:
        s = plain.replace("/", "/./", 1) if "/" in plain else "././" + plain
    else:
        s = ("./sub/.././" + plain) if frm == "" else ("./../sub/" + plain)
    return s, (s == target)


def gen_forest(rng, k):
    names = NAMES[:k]
    F = {}
    nspell = [0, 0]
    for n in names:
        if rng.random() < 0.12:
            F[n] = None
            continue
        frm = n.rpartition("/")[0]
        ls = []
        for _ in range(rng.randint(0, 7)):
            r = rng.random()
            c, triv = spell(rng, rng.choice(names), frm)
            if r >= 0.3 and not (0.85 <= r < 0.92):
                nspell[0 if triv else 1] += 1
            if r < 0.3:
                ls.append(rng.choice(["%s out %d" % (n, len(ls)), "trailing ws \t ", "  leading", "é日本", "x" * 300, ""]))
            elif r < 0.5:
                ls.append("@@REDO:do:%d:1.0000@@ %s" % (rng.randint(1, 9), c))
            elif r < 0.62:
                ls.append("@@REDO:unchanged:5:1.0000@@ %s" % c)
            elif r < 0.7:
                ls.append("@@REDO:%s:5:1.0000@@ %s" % (rng.choice(["waiting", "locked", "unlocked"]), c))
            elif r < 0.85:
                ls.append("@@REDO:done:5:1.0000@@ %d %s" % (rng.choice([0, 0, 1, 32]), c))
            elif r < 0.92:
                ls.append("@@REDO:%s:5:1.0000@@ some message  " % rng.choice(["warning", "error", "check", "debug"]))
            else:
                ls.append(rng.choice(["@@REDO:do:5@@ %s" % c, "@@REDO:do:x:1.0000@@ %s" % c, " @@REDO:do:5:1.0000@@ %s" % c, "@@REDO:done:5:1.0000@@ 0"]))
        F[n] = ls
    return names, F, nspell


def replay_level(ctx, rng, viol):
    thorough = ctx["tier"] == "thorough"
    nf = 150 if thorough else 25
    stats = dict(forests=0, replays=0, outputs=0, errors=0, record_spellings_trivial=0, record_spellings_nontrivial=0,
                 root_spellings_nontrivial=0, replays_with_nontrivial_spelling=0, replays_entering_sub_from_top_or_back=0)
    samples = []
    pr = Project()
    try:
        k = 6
        names = NAMES[:k]
        for n in names:
            pr.write(n + ".do", "echo hi\n")
        rc, out, err = pr.run(["redo"] + names)
        assert rc == 0, err
        db = sqlite3.connect(pr.path(".redo/db.sqlite3"))
        fids = dict((n, i) for i, n in db.execute("select rowid,name from Files"))
        db.close()
        for fi in range(nf):
            _, F, nsp = gen_forest(rng, k)
            stats["record_spellings_trivial"] += nsp[0]
            stats["record_spellings_nontrivial"] += nsp[1]
            for n in names:
                lp = pr.path(".redo/log.%d" % fids[n])
                if F[n] is None:
                    if os.path.exists(lp):
                        os.unlink(lp)
                else:
                    with open(lp, "w") as f:
                        f.write("".join(l + "\n" for l in F[n]))
            stats["forests"] += 1
            for optu in (0, 1):
                rootsp = [spell(rng, r, "") for r in rng.sample(names, rng.randint(1, 2))]
                roots = [r[0] for r in rootsp]
                stats["root_spellings_nontrivial"] += sum(1 for r in rootsp if not r[1])
                fenc = ";".join("%s:%s" % (hx(n), "!" if F[n] is None else ",".join(hx(l) for l in F[n])) for n in names)
                req = "catlog %d 1 %s %s" % (optu, ",".join(hx(r) for r in roots), fenc)
                mres = run_lines(MODEL, [req])[0]
                argv = ["redo-log", "--no-pretty", "--no-color", "--no-status", "-r"] + (["-u"] if optu else []) + roots
                rc, out, err = pr.run(argv)
                stats["replays"] += 1
                if mres.startswith("err:"):
                    stats["errors"] += 1
                    agree = rc != 0
                    got = "rc=%d" % rc
                else:
                    want = []
                    for e in mres.split(",") if mres else []:
                        f = e.split(":")
                        if f[0] == "m":
                            want.append(("m", unhx(f[1]).decode(), unhx(f[2]).decode()))
                        else:
                            # a passed-through line that looks like a record is classified the same way on both sides
                            want += parse_out(unhx(f[1]).decode() + "\n") or [("r", "")]
                    got = parse_out(out)
                    stats["outputs"] += len(got)
                    shown = [x[2] for x in got if x[0] == "m" and x[1] == "do"]
                    entered = set(os.path.normpath(r) for r in roots) | set(shown)
                    texts = [mm.group(1) for e in entered for l in (F.get(e) or [])
                             for mm in [re.match(r"^@@REDO:(?:do|unchanged|waiting|locked|unlocked):\d+:[0-9.]+@@ (.*)$", l)] if mm]
                    if any(not r[1] for r in rootsp) or any(x not in F for x in texts):
                        stats["replays_with_nontrivial_spelling"] += 1
                    if any(x.startswith("sub/") for x in shown) and any(not x.startswith("sub/") for x in shown):
                        stats["replays_entering_sub_from_top_or_back"] += 1
                    agree = rc == 0 and got == want
                if not agree:
                    p = write_replay("C18", "corr-replay", dict(kind="model-vs-impl", layer="LogRec.catlog", forest=F, roots=roots, unchanged=optu, model=mres if mres.startswith("err:") else want, impl=got, rc=rc, stderr=err[-600:]))
                    # failing-input search: does the implementation drop or duplicate a plain line of a visited target?
                    bad = impl_replay_violation(F, roots, got) if not mres.startswith("err:") and rc == 0 else None
                    viol.append(Violation("C18", p, "replay of a synthetic log forest differs from the model%s" % ("; " + bad if bad else ""), no_input=not bad))
                    return stats, samples
                # the same replay in pretty mode (the default of redo-log): catlog's indentation (fix_depth / reduce_depth)
                # and PrettyLog::write_line against Pretty.replayText
                pv, px = rng.choice([0, 0, 1]), rng.choice([0, 0, 1])
                preq = "catlog-pretty %d %d %d 1 %s %s" % (pv, px, optu, ",".join(hx(r) for r in roots), fenc)
                pres = run_lines(MODEL, [preq])[0]
                penv = {}
                if pv:
                    penv["REDO_VERBOSE"] = "1"
                if px:
                    penv["REDO_XTRACE"] = "1"
                prc, pout, perr = pr.run(["redo-log", "--no-color", "--no-status", "-r"] + (["-u"] if optu else []) + roots, env=penv)
                stats["pretty_replays"] = stats.get("pretty_replays", 0) + 1
                if pres.startswith("ok "):
                    pwant = unhx(pres[3:]).decode()
                    pagree = prc == 0 and pout == pwant
                    stats["pretty_bytes"] = stats.get("pretty_bytes", 0) + len(pwant)
                    stats["pretty_indented_lines"] = stats.get("pretty_indented_lines", 0) + sum(1 for l in pwant.splitlines() if l.startswith("redo    "))
                    stats["pretty_exit_lines"] = stats.get("pretty_exit_lines", 0) + pwant.count(" (exit ")
                    stats["pretty_done_lines"] = stats.get("pretty_done_lines", 0) + pwant.count(" (done)")
                    stats["pretty_resumed_lines"] = stats.get("pretty_resumed_lines", 0) + pwant.count(" (resumed)")
                else:
                    pwant = pres
                    pagree = prc != 0
                if not pagree:
                    bad = None
                    if pres.startswith("ok ") and prc == 0:
                        bad = pretty_replay_violation(F, roots, pout)
                    p = write_replay("C18", "corr-pretty-replay", dict(kind="model-vs-impl", layer="Pretty.replayText over LogRec.redoLog", forest=F, roots=roots, unchanged=optu,
                                                                       verbose=pv, xtrace=px, model=pwant, impl=pout, rc=prc, stderr=perr[-600:]))
                    viol.append(Violation("C18", p, "pretty-mode replay of a synthetic log forest differs from the model%s" % ("; " + bad if bad else ""), no_input=not bad))
                    return stats, samples
                if len(samples) < 2 and not mres.startswith("err:") and len(got) > 6:
                    samples.append(dict(forest=F, roots=roots, unchanged=optu, output=got[:12]))
    finally:
        pr.destroy()
    return stats, samples


def impl_replay_violation(F, roots, got):
    """Independent monitor: every non-record line of a log whose target was entered appears exactly once."""
    # printed names are cleaned project-relative names, i.e. keys of F; command-line roots may be any spelling
    entered = set(os.path.normpath(r) for r in roots) | set(x[2] for x in got if x[0] == "m" and x[1] == "do")
    for t in entered:
        for l in F.get(t) or []:
            if l.startswith("@@REDO:"):
                continue
            c = sum(1 for x in got if x[0] == "r" and x[1] == l.rstrip())
            exp = sum(1 for u in entered for y in (F.get(u) or []) if not y.startswith("@@REDO:") and y.rstrip() == l.rstrip())
            if c != exp:
                return "line %r of %s appears %d times, expected %d" % (l, t, c, exp)
    return None


def pretty_replay_violation(F, roots, pout):
    """Independent monitor for the pretty-mode replay: every plain (record-free) line of a log whose target was shown
    appears exactly as often as it was written."""
    shown = set(os.path.normpath(r) for r in roots)
    for l in pout.splitlines():
        mm = re.match(r"^redo  +(\S.*)$", l)
        if mm and not mm.group(1).endswith(")"):
            shown.add(mm.group(1))
    lines = pout.splitlines()
    for t in shown:
        for l in F.get(t) or []:
            if "@@REDO:" in l:
                continue
            c = sum(1 for x in lines if x == l.rstrip())
            exp = sum(1 for u in shown for y in (F.get(u) or []) if "@@REDO:" not in y and y.rstrip() == l.rstrip())
            if c != exp:
                return "line %r of %s appears %d times in the pretty output, expected %d" % (l, t, c, exp)
    return None


def parse_pretty(text):
    """The pretty-mode output as events: `redo  <indent><name>` starts (or re-enters) a target, `… (resumed)` resumes
    one, `… (exit N)` / `… (done)` close one; everything else is a plain line."""
    out = []
    for l in text.split("\n"):
        mm = re.match(r"^redo  ( *)(.*)$", l)
        if mm:
            body = mm.group(2)
            m2 = re.match(r"^(.*) \((resumed|done|exit -?\d+|unchanged)\)$", body)
            if m2:
                kind = m2.group(2).split()[0]
                out.append(("m", "resumed" if kind == "resumed" else ("unchanged" if kind == "unchanged" else "done"), m2.group(1)))
            else:
                out.append(("m", "do", body))
        else:
            out.append(("r", l))
    if out and out[-1] == ("r", ""):
        out.pop()
    return out


def attribute(events):
    """Lines per target: a raw line belongs to the target named by the latest do/resumed record."""
    cur = None
    per = {}
    for e in events:
        if e[0] == "m" and e[1] in ("do", "resumed"):
            cur = e[2]
        elif e[0] == "r":
            per.setdefault(cur, []).append(e[1])
    return per


def live_level(ctx, rng, viol):
    thorough = ctx["tier"] == "thorough"
    stats = dict(builds=0, lines=0)
    samples = []
    for gi in range(6 if thorough else 2):
        for j in ([1, 2, 4] if thorough else [1, 3]):
            pr = Project()
            try:
                k = rng.randint(3, 6)
                names = ["t%d" % i for i in range(k)]
                expect = {}
                for i, n in enumerate(names):
                    deps = [m for m in names[i + 1:] if rng.random() < 0.6]
                    nl = rng.randint(1, 6)
                    body = []
                    exp = []
                    for x in range(nl):
                        kind = rng.random()
                        if kind < 0.08:
                            body.append("printf '%s part-%d' >&2; sleep 0.05; echo ' rest' >&2" % (n, x))
                            exp.append("%s part-%d rest" % (n, x))
                        elif kind < 0.18:
                            body.append("printf '%s frag-%d a' >&2; sleep 0.35; printf ' b' >&2; sleep 0.35; printf ' c' >&2; sleep 0.35; echo ' d' >&2" % (n, x))
                            exp.append("%s frag-%d a b c d" % (n, x))
                        elif kind < 0.25:
                            body.append("echo '%s long-%d %s' >&2" % (n, x, "L" * 70000))
                            exp.append("%s long-%d %s" % (n, x, "L" * 70000))
                        elif kind < 0.35:
                            body.append("echo '%s ws-%d   ' >&2" % (n, x))
                            exp.append("%s ws-%d" % (n, x))
                        else:
                            body.append("echo '%s line-%d' >&2" % (n, x))
                            exp.append("%s line-%d" % (n, x))
                        if x == nl // 2 and deps:
                            body.append("redo-ifchange " + " ".join(deps))
                    pr.write(n + ".do", "\n".join(body) + "\necho out-%s\n" % n)
                    expect[n] = exp
                pr.write("all.do", "redo-ifchange " + " ".join(names) + "\n")
                rc, out, err, trace = traced_run(pr, ["redo", "-j%d" % j, "--no-pretty", "--no-color", "--no-status", "all"], timeout=120)
                stats["builds"] += 1
                nsess, flags = replay_follow(trace)
                stats["follow_sessions"] = stats.get("follow_sessions", 0) + nsess
                if flags:
                    p = write_replay("C18", "follow", dict(kind="trace-rejected", acceptor="LogFollow.Obs.ostep (RedoModel/LogFollow.lean)", j=j, flags=[(f[0], f[1], f[2]) for f in flags]))
                    viol.append(Violation("C18", p, "a follower session at -j%d is rejected by the LogFollow acceptor: %s (target id %d)" % (j, flags[0][3], flags[0][0])))
                    return stats, samples
                live = attribute(parse_out(err))
                rc2, out2, err2 = pr.run(["redo-log", "--no-pretty", "--no-color", "--no-status", "-r", "all"])
                rep = attribute(parse_out(out2))
                # the same logs once more through the default (pretty) output path
                rc3, out3, err3 = pr.run(["redo-log", "--no-color", "--no-status", "-r", "all"])
                prep = attribute(parse_pretty(out3))
                stats["pretty_replays_of_real_logs"] = stats.get("pretty_replays_of_real_logs", 0) + 1
                if rc3 != 0:
                    prep = {}
                for n in names:
                    stats["lines"] += len(expect[n])
                    for where, got in (("live output", live), ("redo-log replay", rep), ("redo-log replay in pretty mode", prep)):
                        g = [l for l in got.get(n, [])]
                        if rc != 0 or g != expect[n]:
                            scripts = dict((n2, pr.read(n2 + ".do").decode()[:400]) for n2 in names)
                            p = write_replay("C18", "live", dict(kind="impl-monitor", clause="every stderr line appears exactly once, in order, under its target", where=where, j=j, target=n, rc=rc, want=[x[:80] for x in expect[n]], got=[x[:80] for x in g], scripts=scripts))
                            viol.append(Violation("C18", p, "%s at -j%d: lines of %s are %r, expected %r" % (where, j, n, [x[:30] for x in g][:6], [x[:30] for x in expect[n]][:6])))
                            return stats, samples
                if not samples:
                    samples.append(dict(j=j, targets=names, expect=dict((n, [x[:40] for x in v]) for n, v in expect.items())))
            finally:
                pr.destroy()
    return stats, samples


LOG_LOCK_MAGIC = 0x10000000
STALE_FLAGS = ("staleOpen", "wrongInstance")


def follow_sessions(trace):
    """From a hook trace: for every session of a `redo-log --follow` process on a target (log.enter … log.stop), the
    observable events of that session together with the events of the target's builders (lock taken / log instance
    created / lock released), in trace order — the input of the Lean acceptor LogFollow.Obs (verb logfollow-replay).
    The follower's observation of the lock is placed where its own lock probe is logged (right after the fcntl, while
    it still holds the probe lock), not where log.enter/log.check is logged: the trace order is then consistent with the
    kernel's lock order."""
    followers = set(pid for pid, ts, name, a in trace if name.startswith("log."))
    sessions = {}          # (pid, fid) -> list of event strings (placeholders are lists)
    per_fid = {}           # fid -> list of (index in trace, event) for builder events
    open_sess = {}         # (pid, fid) -> dict(events=[...], pending=None)
    done = []
    builder_ev = []        # (fid, ev) in trace order, with positions
    out = []
    # pass 1: one merged stream per fid
    streams = {}
    for pid, ts, name, a in trace:
        if not a or not a[0].lstrip("-").isdigit():
            continue
        fid = int(a[0])
        if not (0 < fid < LOG_LOCK_MAGIC):
            continue
        st = streams.setdefault(fid, [])
        if pid in followers:
            if name == "lock.try":
                st.append(["probe", pid, a[1] == "1"])
            elif name == "log.enter":
                st.append(["enter", pid, a[1] == "1"])
            elif name == "log.check":
                st.append(["check", pid, a[1] == "1"])
            elif name == "log.open":
                st.append(["open", pid, int(a[1])])
            elif name == "log.eof":
                st.append(["eof", pid])
            elif name == "log.stop":
                st.append(["stop", pid])
        else:
            if name == "lock.try" and a[1] == "1":
                st.append(["lo"])
            elif name == "lock.wait.end":
                st.append(["lo"])
            elif name == "lock.unlock":
                st.append(["ul"])
            elif name == "job.logfile":
                st.append(["cr", int(a[1])])
    # pass 2: per follower pid and fid, move each observation to the position of the probe that produced it
    res = []
    for fid, st in streams.items():
        fpids = sorted(set(e[1] for e in st if e[0] in ("enter", "check", "open", "stop", "probe")))
        for fp in fpids:
            evs = []
            last_probe = None
            active = False
            for e in st:
                k = e[0]
                if k in ("lo", "ul"):
                    evs.append(k)
                elif k == "cr":
                    evs.append("cr,%d" % e[1])
                elif e[1] != fp:
                    continue
                elif k == "probe":
                    evs.append(None); last_probe = len(evs) - 1
                elif k in ("enter", "check"):
                    txt = "%s,%d" % ("en" if k == "enter" else "ck", 1 if e[2] else 0)
                    if last_probe is not None:
                        evs[last_probe] = txt; last_probe = None
                    else:
                        evs.append(txt)
                    active = True
                elif k == "open":
                    evs.append("op,%d" % e[2])
                elif k == "eof":
                    if not (evs and evs[-1] == "ef"):
                        evs.append("ef")
                elif k == "stop":
                    evs.append("st"); active = False
            evs = [x for x in evs if x is not None]
            if any(x.startswith("en,") for x in evs):
                res.append((fp, fid, evs, active))
    return res


def replay_follow(trace):
    """Replay every follower session of the trace; returns (sessions, flags) with flags = [(fid, flag, events)]."""
    sess = follow_sessions(trace)
    flags = []
    if not sess:
        return 0, flags
    answers = run_lines(MODEL, ["logfollow-replay %s" % (";".join(evs) or "-") for _, _, evs, _ in sess])
    for (fp, fid, evs, active), ans in zip(sess, answers):
        if ans.startswith("flag "):
            flags.append((fid, ans.split()[1], evs, ans))
        elif not ans.startswith("ok"):
            flags.append((fid, "bad-answer", evs, ans))
    return len(sess), flags


def traced_run(pr, argv, timeout=120, extra_env=None):
    import sched
    tr = pr.path(".verif-trace")
    if os.path.exists(tr):
        os.unlink(tr)
    env = {"REDO_VERIF_TRACE": tr}
    if extra_env:
        env.update(extra_env)
    rc, out, err = pr.run(argv, env=env, timeout=timeout)
    return rc, out, err, sched.parse_trace(tr)


def stale_instance_scenario(ctx, viol, known_hit):
    """A requester finds target c locked while the lock holder is still rebuilding c's checksummed dependency out of
    band (no new log instance of c exists yet): the follower, sent into c's log by the `locked` record, opens the log
    of c's PREVIOUS build.  Model: LogFollow hypothesis (a) (`C18.stale_open_loses_lines`)."""
    pr = Project()
    try:
        pr.write("m.do", "redo-ifchange ver\nsleep 1\ncat ver\ncat ver | redo-stamp\n")
        pr.write("c.do", "redo-ifchange m\necho \"c-run $(cat m)\" >&2\ncat m\n")
        pr.write("q.do", "redo-ifchange ver2\nsleep 0.3\nredo-ifchange c\necho q-line >&2\n")
        pr.write("p.do", "redo-ifchange ver2\nredo-ifchange c\necho p-line >&2\n")
        pr.write("all.do", "redo-ifchange q p\n")
        pr.write("ver", "1\n"); pr.write("ver2", "1\n")
        rc, out, err = pr.run(["redo", "-j3", "--no-pretty", "--no-color", "--no-status", "all"], timeout=60)
        pr.write("ver", "2\n"); pr.write("ver2", "2\n")
        rc, out, err, trace = traced_run(pr, ["redo", "-j3", "--no-pretty", "--no-color", "--no-status", "all"], timeout=60)
        live = attribute(parse_out(err)).get("c", [])
        nsess, flags = replay_follow(trace)
        stale_flag = [f for f in flags if f[1] in STALE_FLAGS]
        other = [f for f in flags if f[1] not in STALE_FLAGS]
        lost = live != ["c-run 2"]
        if other:
            p = write_replay("C18", "follow-oob-flag", dict(kind="trace-replay", flags=[(f[0], f[1], f[2]) for f in other], stderr=err[-1500:]))
            viol.append(Violation("C18", p, "follower session rejected by the LogFollow acceptor: %s" % other[0][3]))
        elif lost or stale_flag:
            kf = [k for k in known_findings("C18") if k.get("id") == "stale-log-instance-while-locked" and k.get("status") == "known"]
            what = "live output of `redo -j3 all` shows %r under c instead of ['c-run 2'] (q finds c locked while p rebuilds c's checksummed dependency m out of band; the follower opens the log instance of c's previous build; acceptor flag: %s)" % (live, stale_flag[0][1] if stale_flag else "none")
            if kf and lost and stale_flag:
                known_hit.append(what)
            else:
                p = write_replay("C18", "follow-oob", dict(kind="impl-monitor", live=live, flags=[(f[0], f[1], f[2]) for f in flags], stderr=err[-1500:]))
                viol.append(Violation("C18", p, what))
        return dict(sessions=nsess, flags=[f[1] for f in flags], live_c=live)
    finally:
        pr.destroy()


def inband_scenario(ctx, viol, known_hit):
    """Known finding C18/inband: a stderr line with the record syntax is consumed as a record."""
    pr = Project()
    try:
        pr.write("t.do", "echo before >&2\necho '@@REDO:unchanged:1:0.0000@@ ghost' >&2\necho after >&2\necho out\n")
        rc, out, err = pr.run(["redo", "--no-pretty", "--no-color", "--no-status", "t"])
        shown = [l for l in err.split("\n") if "ghost" in l]
        ok_rest = "before" in err and "after" in err and rc == 0
        if not ok_rest:
            p = write_replay("C18", "inband-other", dict(kind="impl-monitor", rc=rc, stderr=err[-800:]))
            viol.append(Violation("C18", p, "in-band scenario: neighbouring lines lost or build failed"))
        elif len(shown) != 1:
            kf = [k for k in known_findings("C18") if k.get("id") == "inband-record-consumed" and k.get("status") == "known"]
            if kf:
                known_hit.append("stderr line '@@REDO:unchanged:1:0.0000@@ ghost' is consumed as a record, shown %d times (log.rs catlog parses every line; protocol-level in-band signalling)" % len(shown))
            else:
                p = write_replay("C18", "inband", dict(kind="impl-monitor", clause="every stderr line appears exactly once", script=pr.read("t.do").decode(), stderr=err[-800:]))
                viol.append(Violation("C18", p, "a stderr line resembling a record is shown %d times" % len(shown)))
    finally:
        pr.destroy()


def fragments_scenario(ctx, viol):
    """One stderr line written in four pieces with pauses long enough for the follower to hit end-of-file between them."""
    pr = Project()
    try:
        pr.write("conf.do", "printf 'checking for frobnicator... ' >&2; sleep 0.6; printf 'still looking... ' >&2; sleep 0.6; printf 'almost... ' >&2; sleep 0.6; echo found >&2\necho two-piece >&2\necho ok\n")
        for j in (1, 3):
            rc, out, err = pr.run(["redo", "-j%d" % j, "--no-pretty", "--no-color", "--no-status", "conf"], timeout=60)
            live = attribute(parse_out(err)).get("conf", [])
            want = ["checking for frobnicator... still looking... almost... found", "two-piece"]
            if rc != 0 or live != want:
                p = write_replay("C18", "fragments", dict(kind="impl-monitor", clause="partial lines", j=j, rc=rc, want=want, got=live, stderr=err[-800:]))
                viol.append(Violation("C18", p, "a stderr line written in four pieces is shown as %r at -j%d" % (live, j)))
                return
    finally:
        pr.destroy()


def concurrent_reader_scenario(ctx, viol):
    """A `redo-log` replay that is part-way through a target's log while that target is rebuilt must still see
    one complete instance of the log (the log file is replaced atomically, never truncated in place)."""
    import subprocess, time
    from proj import clean_env
    pr = Project()
    try:
        n = 40000
        pr.write("x.do", "b=$(cat bno)\ni=1; while [ $i -le %d ]; do echo \"line $i of x build $b\" >&2; i=$((i+1)); done\necho done\n" % n)
        pr.write("bno", "1")
        rc, out, err = pr.run(["redo", "x"], timeout=120)
        if rc != 0:
            return
        env = clean_env()
        reader = subprocess.Popen("redo-log --no-pretty --no-color --no-status x | (sleep 2.5; cat)", shell=True, cwd=pr.root, env=env,
                                  stdout=subprocess.PIPE, stderr=subprocess.PIPE, start_new_session=True)
        time.sleep(0.8)
        pr.write("bno", "2")
        rc2, out2, err2 = pr.run(["redo", "x"], timeout=120)
        try:
            rout, rerr = reader.communicate(timeout=120)
        except subprocess.TimeoutExpired:
            import os, signal
            os.killpg(reader.pid, signal.SIGKILL)
            rout, rerr = reader.communicate()
        got = [l for l in rout.decode("utf-8", "replace").split("\n") if l.startswith("line ")]
        want = ["line %d of x build 1" % i for i in range(1, n + 1)]
        want2 = ["line %d of x build 2" % i for i in range(1, n + 1)]
        if got != want and got != want2:
            p = write_replay("C18", "reader", dict(kind="impl-monitor", clause="a later replay shows every line exactly once and in order", lines_seen=len(got), lines_expected=n,
                                                    first_bad=next((i for i, (a, b) in enumerate(zip(got, want)) if a != b), min(len(got), len(want)))))
            viol.append(Violation("C18", p, "a redo-log replay overlapping a rebuild of the target saw %d of %d lines" % (len(got), n)))
    finally:
        pr.destroy()


def two_spellings_scenario(ctx, viol):
    """One target reached through two relative spellings in one build (b.do: redo-ifchange c; sub/a.do: redo-ifchange
    ../c, while c is still locked): every stderr line of c appears exactly once, in the live output and in the replay."""
    pr = Project()
    try:
        pr.write("c.do", "sleep 0.5\necho line-from-c >&2\necho c\n")
        pr.write("b.do", "redo-ifchange c\necho line-from-b >&2\necho b\n")
        pr.write("sub/a.do", "sleep 0.1\nredo-ifchange ../c\necho line-from-a >&2\necho a\n")
        rc, out, err = pr.run(["redo", "-j3", "b", "sub/a"], timeout=60)
        rc2, out2, err2 = pr.run(["redo-log", "-r", "b", "sub/a"], timeout=60)
        problems = []
        for what, text in (("live output", err), ("redo-log -r", out2 + err2)):
            for ln in ("line-from-a", "line-from-b", "line-from-c"):
                n = sum(1 for l in text.splitlines() if l.strip() == ln)
                if n != 1:
                    problems.append("%s shows %r %d times" % (what, ln, n))
        if rc != 0 or rc2 != 0:
            problems.append("exit statuses %s %s" % (rc, rc2))
        if problems:
            p = write_replay("C18", "two-spellings", dict(kind="impl-monitor", problems=problems, live=err[-1500:], replay=(out2 + err2)[-1500:],
                                                          scenario="c.do (slow, one stderr line); b.do: redo-ifchange c; sub/a.do: redo-ifchange ../c; redo -j3 b sub/a; redo-log -r b sub/a"))
            viol.append(Violation("C18", p, "a target reached through two spellings: " + "; ".join(problems[:3])))
    finally:
        pr.destroy()


def malformed_done_scenario(ctx, viol):
    """A script writes a line with the syntax of a `done` record but without a status (`@@REDO:done:1:1.0@@ oops`).  The
    line itself is in-band signalling (the recorded finding); what this scenario checks is everything ELSE: the later
    lines of that script and the lines of every other target must still appear exactly once, live and in the replay
    (before the repair the viewer aborted on `expect("improperly formatted done entry")`: the live output ended there
    with exit status 0, and every later `redo-log` of the target exited 101)."""
    stats = dict(builds=0)
    for j in (1, 2):
        pr = Project()
        try:
            pr.write("a.do", "echo a-1 >&2\necho '@@REDO:done:1:1.0@@ oops' >&2\necho a-2 >&2\nredo-ifchange b\necho a-3 >&2\necho a\n")
            pr.write("b.do", "echo b-1 >&2\necho b\n")
            base = ["--no-pretty", "--no-color", "--no-status"]
            rc, out, err = pr.run(["redo", "-j%d" % j] + base + ["a"], timeout=60)
            rc2, out2, err2 = pr.run(["redo-log"] + base + ["-r", "a"], timeout=60)
            stats["builds"] += 1
            problems = []
            if rc != 0 or rc2 != 0:
                problems.append("exit statuses %s (redo) %s (redo-log -r)" % (rc, rc2))
            for what, text in (("live output", err), ("redo-log -r", out2)):
                got = attribute(parse_out(text))
                for t, want in (("a", ["a-1", "a-2", "a-3"]), ("b", ["b-1"])):
                    g = [x for x in got.get(t, []) if not x.startswith("@@REDO:")]
                    if g != want:
                        problems.append("%s: lines under %s are %r, expected %r" % (what, t, g, want))
            if problems:
                m = re.search(r"panicked at [^\n]*\n[^\n]*", err + err2)
                p = write_replay("C18", "malformed-done", dict(kind="impl-monitor", clause="every stderr line appears exactly once, in order, under its target, live and in the replay", j=j,
                                                               problems=problems, panic=m.group(0) if m else None, live=err[-1500:], replay=(out2 + err2)[-1500:],
                                                               scenario="a.do: echo a-1; echo '@@REDO:done:1:1.0@@ oops'; echo a-2; redo-ifchange b; echo a-3 (all to stderr); b.do: echo b-1 >&2"))
                viol.append(Violation("C18", p, "a script line shaped like a `done` record without a status: " + "; ".join(problems[:3]) + ("; the log viewer aborted: " + m.group(0).replace("\n", " ")[:140] if m else "")))
                return stats
        finally:
            pr.destroy()
    return stats


def killed_script_scenario(ctx, viol):
    """A script that is killed by a signal: redo records `done -<signal> <name>` (a NEGATIVE status).  The record must
    survive the replay and the pretty printer like any other, the lines around it must appear once, and the failure must
    be shown (`victim (exit -9)`)."""
    stats = dict(builds=0)
    pr = Project()
    try:
        pr.write("a.do", "echo a-1 >&2\nredo-ifchange victim || echo victim-failed >&2\necho a-2 >&2\necho a\n")
        pr.write("victim.do", "echo v-1 >&2\nkill -9 $$\necho v-never >&2\n")
        base = ["--no-color", "--no-status"]
        rc, out, err = pr.run(["redo", "--no-pretty"] + base + ["a"], timeout=60)
        rc2, out2, err2 = pr.run(["redo-log", "--no-pretty"] + base + ["-r", "a"], timeout=60)
        rc3, out3, err3 = pr.run(["redo-log"] + base + ["-r", "a"], timeout=60)
        stats["builds"] += 1
        problems = []
        if rc2 != 0 or rc3 != 0:
            problems.append("redo-log -r exits %s (raw) / %s (pretty)" % (rc2, rc3))
        for what, text in (("live output", err), ("redo-log -r", out2)):
            got = attribute(parse_out(text))
            if got.get("a") != ["a-1", "victim-failed", "a-2"] or got.get("victim") != ["v-1"]:
                problems.append("%s: lines under a are %r, under victim %r" % (what, got.get("a"), got.get("victim")))
            if not any(e[0] == "m" and e[1] == "done" and e[2] == "-9 victim" for e in parse_out(text)):
                problems.append("%s: no record `done -9 victim`" % what)
        if "victim (exit -9)" not in out3:
            problems.append("pretty replay does not show `victim (exit -9)`")
        for ln in ("a-1", "victim-failed", "a-2", "v-1"):
            if out3.splitlines().count(ln) != 1:
                problems.append("pretty replay shows %r %d times" % (ln, out3.splitlines().count(ln)))
        if problems:
            m = re.search(r"panicked at [^\n]*\n[^\n]*", err + err2 + err3)
            p = write_replay("C18", "killed-script", dict(kind="impl-monitor", clause="records (done with exit status) survive formatting and re-parsing; every line exactly once", problems=problems, panic=m.group(0) if m else None,
                                                          live=err[-1200:], replay=(out2 + err2)[-1200:], pretty_replay=(out3 + err3)[-1200:], scenario="victim.do: echo v-1 >&2; kill -9 $$.  a.do: redo-ifchange victim || echo victim-failed >&2"))
            viol.append(Violation("C18", p, "a script killed by a signal (done record with a negative status): " + "; ".join(problems[:3])))
    finally:
        pr.destroy()
    return stats


def glued_record_scenario(ctx, viol):
    """A script leaves text without a newline on its stderr and then calls a redo command (`printf 'checking y... ' >&2;
    redo-ifchange y`, the configure idiom): redo-ifchange's start record lands on the same log line as the text.  Every
    line of y's script must still appear exactly once under y, live and in the replay, in both output modes (before fix
    2aec02b catlog only recognised a record at the start of a line and never descended into y's log)."""
    stats = dict(builds=0)
    for j in (1, 2):
        for pretty in (False, True):
            pr = Project()
            try:
                pr.write("all.do", "echo all-1 >&2\nprintf 'checking y... ' >&2\nredo-ifchange y\necho yes >&2\nprintf 'checking z and w... ' >&2\nredo-ifchange z w\necho fine >&2\necho all-2 >&2\n")
                pr.write("y.do", "echo y-1 >&2\necho y-2 >&2\nprintf 'nested... ' >&2\nredo-ifchange sub/v\necho y-3 >&2\necho y\n")
                pr.write("z.do", "echo z-1 >&2\necho z\n")
                pr.write("w.do", "echo w-1 >&2\necho w\n")
                pr.write("sub/v.do", "echo v-1 >&2\necho v\n")
                flags = ["--no-color", "--no-status"] + ([] if pretty else ["--no-pretty"])
                rc, out, err = pr.run(["redo", "-j%d" % j] + flags + ["all"], timeout=60)
                rc2, out2, err2 = pr.run(["redo-log"] + flags + ["-r", "all"], timeout=60)
                stats["builds"] += 1
                problems = []
                if rc != 0 or rc2 != 0:
                    problems.append("exit statuses %s %s" % (rc, rc2))
                for what, text in (("live output", err), ("redo-log -r", out2)):
                    ls = [l.strip() for l in text.splitlines()]
                    for ln in ("all-1", "yes", "fine", "all-2", "y-1", "y-2", "y-3", "z-1", "w-1", "v-1"):
                        n = ls.count(ln)
                        if n != 1:
                            problems.append("%s shows %r %d times" % (what, ln, n))
                    # attribution and order (raw mode only: the records name the target)
                    if not pretty and not problems:
                        got = attribute(parse_out(text))
                        for t, want in (("y", ["y-1", "y-2", "nested...", "y-3"]), ("sub/v", ["v-1"]), ("z", ["z-1"]), ("w", ["w-1"])):
                            if [x.strip() for x in got.get(t, [])] != want:
                                problems.append("%s: lines under %s are %r, expected %r" % (what, t, got.get(t), want))
                if problems:
                    p = write_replay("C18", "glued-record", dict(kind="impl-monitor", clause="every stderr line appears exactly once, in order, under its target, live and in the replay", j=j, pretty=pretty,
                                                                 problems=problems, live=err[-2000:], replay=out2[-2000:],
                                                                 scenario="all.do: printf 'checking y... ' >&2; redo-ifchange y; … ; y.do writes three lines and does the same with sub/v"))
                    viol.append(Violation("C18", p, "a start record glued to unterminated text: " + "; ".join(problems[:3])))
                    return stats
            finally:
                pr.destroy()
    return stats


def non_utf8_scenario(ctx, viol):
    """A script writes a stderr line containing bytes that are not UTF-8 (a compiler quoting a Latin-1 file name, a
    truncated multi-byte sequence at a line end, a NUL-free binary blob).  The property quantifies over every line a
    script writes: the lines around it, and the lines of every other target, must still appear exactly once and in
    order, live and in a later replay (before fix ec19c0e the viewer gave up at the first such byte, exit 0)."""
    want = {"a": ["a-before", None, "a-middle", None, None, "a-after", "a-last"], "b": ["b-one", None, "b-two"]}
    for j in (1, 2):
        pr = Project()
        try:
            pr.write("a.do", "echo a-before >&2\nprintf 'caf\\351 latin1\\n' >&2\necho a-middle >&2\nprintf 'cut \\342\\202\\n' >&2\nprintf '\\377\\376\\n' >&2\necho a-after >&2\nredo-ifchange b\necho a-last >&2\necho a\n")
            pr.write("b.do", "echo b-one >&2\nprintf '\\200tail\\n' >&2\necho b-two >&2\necho b\n")
            rc, out, err = pr.run(["redo", "-j%d" % j, "--no-pretty", "--no-color", "--no-status", "a"], timeout=60)
            rc2, out2, err2 = pr.run(["redo-log", "--no-pretty", "--no-color", "--no-status", "-r", "a"], timeout=60)
            for where, text in (("live output", err), ("redo-log replay", out2)):
                got = attribute(parse_out(text))
                for t, w in want.items():
                    g = got.get(t, [])
                    ok = len(g) == len(w) and all(x is None or x == y for x, y in zip(w, g))
                    if rc != 0 or rc2 != 0 or not ok:
                        p = write_replay("C18", "non-utf8", dict(kind="impl-monitor", clause="every stderr line appears exactly once, in order, under its target (lines with bytes that are not UTF-8 included)",
                                                                  where=where, j=j, target=t, rc=[rc, rc2], want=w, got=g, scripts=dict(a=pr.read("a.do").decode("latin-1"), b=pr.read("b.do").decode("latin-1")),
                                                                  stderr=(err if where == "live output" else err2)[-600:]))
                        viol.append(Violation("C18", p, "%s at -j%d: a stderr line with bytes that are not UTF-8: lines of %s are %r, expected %r (None = the undecodable line)" % (where, j, t, g[:8], w)))
                        return
        finally:
            pr.destroy()


def oob_subdir_scenario(ctx, viol):
    """A target in a subdirectory of its rule's directory (default.g.do builds sub/x.g) whose dependency chain contains a
    checksummed target that must be re-checked out of band: the records redo-unlocked's helpers write into sub/x.g's log
    name their targets relative to sub/ — the viewer must find them, live and in a later replay."""
    pr = Project()
    try:
        os.makedirs(pr.path("sub"))
        pr.write("default.g.do", 'echo "g-1 ($1)" >&2\nredo-ifchange t\necho g-2 >&2\n')
        pr.write("t.do", "redo-ifchange s\necho t-line >&2\ncat s\n")
        pr.write("s.do", "redo-always\necho s-line >&2\necho fixed | tee $3 | redo-stamp\n")
        argv = ["redo", "--no-pretty", "--no-color", "--no-status", "sub/x.g"]
        rc0, out0, err0 = pr.run(argv, timeout=60)
        rc1, out1, err1 = pr.run(argv, timeout=60)
        rc2, out2, err2 = pr.run(["redo-log", "--no-pretty", "--no-color", "--no-status", "-r", "sub/x.g"], timeout=60)
        problems = []
        for where, rc, text, errtext in (("live output of the second build", rc1, err1, err1), ("redo-log replay", rc2, out2, err2)):
            if rc != 0:
                problems.append("%s: exit %d (%s)" % (where, rc, (errtext.strip().splitlines() or [""])[-1][:160]))
            got = attribute(parse_out(text))
            for t, want in (("sub/x.g", ["g-1 (sub/x.g)", "g-2"]), ("s", ["s-line"])):
                if got.get(t) != want and not problems:
                    problems.append("%s: lines of %s are %r, expected %r" % (where, t, got.get(t), want))
        if problems:
            p = write_replay("C18", "oob-subdir", dict(kind="impl-monitor", problems=problems, live=err1[-1500:], replay=(out2 + err2)[-1500:],
                                                       scenario="default.g.do: echo g-1 >&2; redo-ifchange t; echo g-2 >&2.  t.do: redo-ifchange s; cat s.  s.do: redo-always; echo fixed | tee $3 | redo-stamp.  mkdir sub; redo sub/x.g twice; redo-log -r sub/x.g"))
            viol.append(Violation("C18", p, "records written during an out-of-band rebuild for a target in a subdirectory of its rule: " + "; ".join(problems[:2])))
    finally:
        pr.destroy()


def split_utf8_scenario(ctx, viol):
    """A stderr line whose multi-byte character arrives in two writes with a pause (a program flushing a 4096-byte stdio
    buffer in the middle of a character): the follower meets end-of-file between the halves; the line is still shown as
    written, live and in the replay."""
    pr = Project()
    try:
        pr.write("u.do", "printf 'caf\\303' >&2; sleep 0.7; printf '\\251 ok\\n' >&2\necho u-last >&2\necho u\n")
        for j in (1, 2):
            rc, out, err = pr.run(["redo", "-j%d" % j, "--no-pretty", "--no-color", "--no-status", "u"], timeout=60)
            live = attribute(parse_out(err)).get("u", [])
            want = ["caf\u00e9 ok", "u-last"]
            if rc != 0 or live != want:
                p = write_replay("C18", "split-utf8", dict(kind="impl-monitor", clause="every stderr line appears exactly once, as written", j=j, rc=rc, want=want, got=live, script=pr.read("u.do").decode("latin-1")))
                viol.append(Violation("C18", p, "a stderr line whose multi-byte character arrived in two writes is shown live as %r (expected %r) at -j%d" % (live, want, j)))
                return
    finally:
        pr.destroy()


def run_on_terminal(pr, argv, columns, timeout=60):
    """Run a command with stderr on a pseudo-terminal of the given width (raw mode: no output translation); the status
    line is only shown on a terminal.  Returns (exit status, everything written to the terminal)."""
    import pty, tty, fcntl, termios, struct, subprocess, threading, signal
    from proj import clean_env, kill_orphans
    master, slave = pty.openpty()
    tty.setraw(slave)
    fcntl.ioctl(slave, termios.TIOCSWINSZ, struct.pack("HHHH", 24, columns, 0, 0))
    chunks = []

    def pump():
        while True:
            try:
                b = os.read(master, 1 << 16)
            except OSError:
                return
            if not b:
                return
            chunks.append(b)
    p = subprocess.Popen(argv, cwd=pr.root, env=clean_env(), stdin=subprocess.DEVNULL, stdout=subprocess.DEVNULL, stderr=slave, start_new_session=True)
    os.close(slave)
    th = threading.Thread(target=pump, daemon=True)
    th.start()
    try:
        rc = p.wait(timeout=timeout)
    except subprocess.TimeoutExpired:
        try:
            os.killpg(p.pid, signal.SIGKILL)
        except ProcessLookupError:
            pass
        p.wait()
        rc = -999
    kill_orphans(p.pid)
    th.join(timeout=5)
    os.close(master)
    return rc, b"".join(chunks).decode("utf-8", "replace")


def status_line_scenario(ctx, viol):
    """The live output with the status line on (stderr is a terminal — here a pseudo-terminal of the given width): the status line is the one place where the viewer does arithmetic on target names.  A long name with
    multi-byte characters has to be cut to fit (the cut must not fall inside a character), and a width smaller than the
    `redo N ` prefix leaves no room at all — in both cases the viewer used to panic (before 35c93e3) and every later line
    of the build was lost from the live output.  All lines of the script must appear exactly once, in order."""
    name = "a" + "\u00e9" * 40
    stats = {}
    for width in (70, 71, 5, 30, 16, 17):          # 16/17: `inner` fits or not by exactly one column
        pr = Project()
        try:
            pr.write(name + ".do", "echo first >&2\nsleep 1.7\necho second >&2\nredo-ifchange inner\necho third >&2\necho x\n")
            pr.write("inner.do", "echo inner-1 >&2\nsleep 1.3\necho inner-2 >&2\necho i\n")
            rc, err = run_on_terminal(pr, ["redo", "--status", "--no-pretty", "--no-color", name], width, timeout=60)
            # every status line that reached the terminal is one the model of the status arithmetic produces for this
            # width, some number of lines read so far and one of the stacks of targets the viewer can be inside of
            seen = set(x for x in re.findall(r"\r([^\r\n]*)\r", err) if x.strip())
            reqs = ["status-line %d %d %s" % (width, n, ",".join(hx(x) for x in st) if st else "") for n in range(0, 40) for st in ([], [name], [name, "inner"])]
            allowed = set(unhx(x).decode() for x in run_lines(MODEL, reqs) if x != "bad-op")
            stats["status_lines_seen"] = stats.get("status_lines_seen", 0) + len(seen)
            stats["status_lines_distinct_allowed"] = len(allowed)
            odd = sorted(seen - allowed)
            if odd and "panicked" not in err:
                p = write_replay("C18", "corr-status-line", dict(kind="model-vs-impl", layer="StatusLine.status / shown", width=width, target=name, seen=sorted(seen), not_produced_by_model=odd, model_examples=sorted(allowed)[:6]))
                viol.append(Violation("C18", p, "the status line %r (width %d) is not what the model of the status arithmetic produces for any number of lines and any stack of targets" % (odd[0], width), no_input=True))
                return stats
            if not seen and width >= 20:
                stats["status_never_seen"] = stats.get("status_never_seen", 0) + 1
            text = re.sub(r"\r[^\r\n]*\r", "", err)
            got = attribute(parse_out(text))
            want = {name: ["first", "second", "third"], "inner": ["inner-1", "inner-2"]}
            bad = [t for t in want if got.get(t) != want[t]]
            if rc != 0 or bad or "panicked" in err:
                m = re.search(r"panicked at [^\n]*\n[^\n]*", err)
                p = write_replay("C18", "status-line", dict(kind="impl-monitor", clause="every stderr line appears exactly once, in order, in the live output", width=width, rc=rc, target=name,
                                                            want=want, got={t: got.get(t) for t in want}, panic=m.group(0) if m else None, stderr=err[-1200:]))
                viol.append(Violation("C18", p, "live output with the status line on (width %d, target name with multi-byte characters): exit %d, lines %r, expected %r%s"
                                      % (width, rc, {t: (got.get(t) or [])[:4] for t in bad}, {t: want[t] for t in bad}, "; the log viewer aborted: " + m.group(0).replace("\n", " ")[:160] if m else "")))
                return stats
        finally:
            pr.destroy()
    # line counts with thousands separators: a script that writes 1 500 lines and then pauses with the status line on
    if not viol:
        pr = Project()
        try:
            pr.write("big.do", "seq 1 1500 | sed 's/^/n/' >&2\nsleep 1.8\necho end >&2\necho x\n")
            width = 60
            rc, err = run_on_terminal(pr, ["redo", "--status", "--no-pretty", "--no-color", "big"], width, timeout=60)
            seen = set(x for x in re.findall(r"\r([^\r\n]*)\r", err) if x.strip())
            reqs = ["status-line %d %d %s" % (width, n, ",".join(hx(x) for x in st) if st else "") for n in range(0, 1600) for st in ([], ["big"])]
            allowed = set(unhx(x).decode() for x in run_lines(MODEL, reqs) if x != "bad-op")
            stats["status_lines_seen"] = stats.get("status_lines_seen", 0) + len(seen)
            stats["status_lines_with_separator"] = sum(1 for x in seen if re.match(r"^redo \d,\d\d\d ", x))
            odd = sorted(seen - allowed)
            lines = [l for l in re.sub(r"\r[^\r\n]*\r", "", err).split("\n")]
            if odd and "panicked" not in err:
                p = write_replay("C18", "corr-status-line", dict(kind="model-vs-impl", layer="StatusLine.status / thousands", width=width, seen=sorted(seen), not_produced_by_model=odd))
                viol.append(Violation("C18", p, "the status line %r (width %d, more than a thousand lines read) is not what the model of the status arithmetic produces" % (odd[0], width), no_input=True))
            elif rc != 0 or lines.count("n1500") != 1 or lines.count("end") != 1 or "panicked" in err:
                p = write_replay("C18", "status-line-big", dict(kind="impl-monitor", rc=rc, tail=err[-800:]))
                viol.append(Violation("C18", p, "live output with the status line on and 1 500 lines: exit %d, 'n1500' shown %d times, 'end' %d times" % (rc, lines.count("n1500"), lines.count("end"))))
        finally:
            pr.destroy()
    return stats


CW_CAP = 20000          # upper bound of lines per background writer (keeps a round bounded on a stalled machine)
RECORD_RE = re.compile(r"^@@REDO:[a-z]+:-?\d+:\d+\.\d+@@ [^@\n]*$")


def cw_project(pr, rng, nkids, nmid, slow=False):
    """A tree of targets whose inner nodes have several concurrent writers on their own log: the script itself, 1-3
    background subshells that keep writing numbered lines to stderr, and the redo-ifchange process(es) that append
    the structured records of the children (some nodes start two redo-ifchange at the same time).  Every writer writes
    whole lines only, one write(2) each, so that the attribution of every line is defined: line `<t> w<k> <i>` is the
    i-th line of writer k of target t (writer 0 = the script).  Returns {target: number of background writers}."""
    spec = {}

    def leaf(n):
        nl = rng.randint(1, 3)
        pr.write(n + ".do", "".join("echo '%s w0 %d' >&2\n" % (n, i) for i in range(nl)) + "echo out-%s\n" % n)
        spec[n] = dict(bg=0, main=nl)

    def inner(n, kids):
        T = rng.randint(1, 3)
        body = ["echo '%s w0 0' >&2" % n]
        for t in range(1, T + 1):
            pause = "sleep 0.01; " if slow else ""
            body.append("( i=0; while [ ! -e stop.%s ] && [ $i -lt %d ]; do echo \"%s w%d $i\" >&2; i=$((i+1)); %sdone; echo $i >cnt.%s.%d ) &"
                        % (n, CW_CAP, n, t, pause, n, t))
        body.append("rc=0")
        if len(kids) >= 4 and rng.random() < 0.35:
            h = len(kids) // 2
            body.append("redo-ifchange %s & p1=$!" % " ".join(kids[:h]))
            body.append("redo-ifchange %s || rc=$?" % " ".join(kids[h:]))
            body.append("wait $p1 || rc=$?")
        else:
            body.append("redo-ifchange %s || rc=$?" % " ".join(kids))
        body.append("echo '%s w0 1' >&2" % n)
        body.append(": >stop.%s" % n)
        body.append("wait")
        body.append("echo '%s w0 2' >&2" % n)
        body.append("[ $rc = 0 ] || exit $rc")
        body.append("echo out-%s" % n)
        pr.write(n + ".do", "\n".join(body) + "\n")
        spec[n] = dict(bg=T, main=3)

    kids = []
    for i in range(nkids):
        k = "k%d" % i
        if i < nmid:
            gk = ["%sg%d" % (k, x) for x in range(rng.randint(3, 6))]
            for g in gk:
                leaf(g)
            inner(k, gk)
        else:
            leaf(k)
        kids.append(k)
    rng.shuffle(kids)
    inner("top", kids)
    return spec


def cw_counts(pr, spec):
    """Lines written per writer: {target: [n_main, n_bg1, ...]} (background writers report their count in a file)."""
    counts = {}
    for n, s in spec.items():
        c = [s["main"]]
        for t in range(1, s["bg"] + 1):
            raw = pr.read("cnt.%s.%d" % (n, t))
            c.append(int(raw) if raw and raw.strip().isdigit() else None)
        counts[n] = c
    return counts


def cw_monitor(per, counts):
    """The property on an attributed stream: every line shown is a line that a writer of the target it is shown under
    wrote; per writer the lines are 0..n-1 in order (exactly once, original order; the order BETWEEN the concurrent
    writers of one log is not defined and not checked)."""
    seqs = {}
    for tgt, lines in per.items():
        for l in lines:
            mm = re.match(r"^(\S+) w(\d+) (\d+)$", l)
            if not mm or mm.group(1) not in counts or int(mm.group(2)) >= len(counts[mm.group(1)]):
                return "the line %r (shown under %s) is not a line any script wrote" % (l[:120], tgt)
            if mm.group(1) != tgt:
                return "the line %r of %s is shown under %s" % (l[:120], mm.group(1), tgt)
            seqs.setdefault((tgt, int(mm.group(2))), []).append(int(mm.group(3)))
    for n, c in sorted(counts.items()):
        for w, cnt in enumerate(c):
            got = seqs.get((n, w), [])
            if cnt is None:
                return "writer %d of %s never reported how many lines it wrote" % (w, n)
            if got != list(range(cnt)):
                bad = next((i for i, x in enumerate(got) if x != i), len(got))
                return "writer %d of %s wrote lines 0..%d; shown under %s: %d lines, first deviation at position %d (%s)" % (
                    w, n, cnt - 1, n, len(got), bad, "line %d" % got[bad] if bad < len(got) else "line %d missing" % bad)
    return None


def cw_stored_logs(pr):
    """Every line of a stored log that contains record syntax must be exactly one well-formed record (the scripts of
    the scenario never write '@@')."""
    import glob
    bad = []
    nrec = 0
    for lp in sorted(glob.glob(pr.path(".redo/log.*"))):
        for l in open(lp, errors="replace").read().split("\n"):
            if "@@" in l:
                nrec += 1
                if not RECORD_RE.match(l):
                    bad.append((os.path.basename(lp), l[:160]))
    return nrec, bad


def strace_unescape(s):
    return re.sub(r"\\(.)", lambda m: {"n": "\n", "t": "\t", "r": "\r"}.get(m.group(1), m.group(1)), s)


def split_records(path):
    """Syscall-level monitor on a `strace -f -y -e trace=write` log: in the stream that ONE process writes to ONE
    file or pipe, every line that starts with @@REDO: must lie within a single write(2) call.  Returns
    (records seen, [(pid, file, pieces)] for the records written in several calls)."""
    pend = {}
    nrec = 0
    bad = []
    for l in open(path, errors="replace"):
        m = re.match(r'^(\d+)\s+write\((\d+)<([^>]*)>, "((?:[^"\\]|\\.)*)"(\.\.\.)?, \d+', l)
        if not m:
            continue
        pid, fd, fpath, data, trunc = m.groups()
        if not (re.search(r"/\.redo/log\.\d+$", fpath) or fpath.startswith("pipe:")):
            continue
        key = (pid, fpath)
        if trunc:
            pend.pop(key, None)        # content not fully visible: nothing is claimed about this line
            continue
        data = strace_unescape(data)
        if not data:
            continue
        pieces = pend.pop(key, [])
        parts = data.split("\n")
        for i, part in enumerate(parts[:-1]):
            ps = pieces + [part + "\n"] if i == 0 else [part + "\n"]
            line = "".join(ps)
            if line.startswith("@@REDO:"):
                nrec += 1
                if len(ps) > 1:
                    bad.append((pid, fpath, ps))
        rest = parts[-1]
        if len(parts) == 1:
            pend[key] = pieces + [rest]
        elif rest:
            pend[key] = [rest]
    for (pid, fpath), ps in pend.items():
        if "".join(ps).startswith("@@REDO:"):
            nrec += 1
            bad.append((pid, fpath, ps))
    return nrec, bad


def concurrent_writers_level(ctx, rng, viol, only=None):
    """Scripts that keep writing to their own stderr (background progress writers, a second redo-ifchange) WHILE
    redo-ifchange appends the records of ~20 children to the same log: two or more concurrent writers on one log file.
    (a) free-running live builds; (b) one small build under strace with every write(2) slowed down, which makes the
    interleaving of the writers fine-grained, with the syscall-level monitor `split_records` (a record must reach the
    log in ONE write call: the log protocol — several processes appending to one open file — relies on that)."""
    import shutil
    thorough = ctx["tier"] == "thorough"
    stats = dict(builds=0, lines=0, bg_lines=0, records_in_logs=0, strace_builds=0, records_traced=0)
    base = ["--no-pretty", "--no-color", "--no-status"]
    rounds = [("free", j) for j in ([1, 2, 3, 4, 6, 8] if thorough else [rng.choice([2, 3]), rng.choice([1, 4, 6])])]
    if shutil.which("strace"):
        rounds.append(("strace", 2))
    else:
        stats["strace_missing"] = 1
    for mode, j in rounds:
        if only and mode != only:
            continue
        pr = Project()
        try:
            if mode == "free":
                spec = cw_project(pr, rng, nkids=rng.randint(16, 24), nmid=rng.randint(0, 2))
                argv = ["redo", "-j%d" % j] + base + ["top"]
            else:
                spec = cw_project(pr, rng, nkids=rng.randint(5, 7), nmid=1, slow=False)
                st = pr.path(".strace-out")
                argv = ["strace", "-f", "-qq", "-y", "-s", "400", "-o", st, "-e", "trace=write", "-e", "inject=write:delay_exit=1000",
                        "redo", "-j%d" % j] + base + ["top"]
            rc, out, err = pr.run(argv, timeout=300)
            if mode == "strace" and (rc != 0 and "@@REDO:" not in err):
                stats["strace_failed"] = err[-200:]       # strace could not run here (no ptrace): nothing observed
                continue
            stats["builds"] += 1
            rc2, out2, err2 = pr.run(["redo-log"] + base + ["-r", "top"], timeout=300)
            counts = cw_counts(pr, spec)
            stats["lines"] += sum(x or 0 for c in counts.values() for x in c)
            stats["bg_lines"] += sum(x or 0 for c in counts.values() for x in c[1:])
            scen = "inner targets run 1-3 background writers of numbered stderr lines (and sometimes two redo-ifchange at once) while redo-ifchange builds their children; %d targets, -j%d%s" % (
                len(spec), j, ", whole build under strace with every write(2) delayed by 1 ms" if mode == "strace" else "")
            problem = None
            if rc != 0:
                problem = "redo exits with status %d" % rc
            elif rc2 != 0:
                problem = "redo-log -r exits with status %d (%s)" % (rc2, err2.strip()[-120:])
            for where, text in (("live output", err), ("redo-log replay", out2)):
                if not problem:
                    bad = cw_monitor(attribute(parse_out(text)), counts)
                    if bad:
                        problem = "%s: %s" % (where, bad)
            nrec, damaged = cw_stored_logs(pr)
            stats["records_in_logs"] += nrec
            if damaged and not problem:
                problem = "stored log %s holds the damaged record line %r" % damaged[0]
            split = []
            if mode == "strace":
                stats["strace_builds"] += 1
                ntr, split = split_records(st)
                stats["records_traced"] += ntr
            if problem or split:
                what = []
                if problem:
                    what.append(problem + (" (%d damaged record lines in .redo/log.*)" % len(damaged) if damaged else ""))
                if split:
                    pid, fpath, ps = split[0]
                    what.append("assumption of the log model violated: %d of %d structured records were written in several write(2) calls (pid %s to %s: %r) — "
                                "a record must reach the log in ONE write, other processes append to the same file concurrently" % (
                                    len(split), ntr, pid, fpath.replace(pr.root, "."), ps[:12]))
                scripts = dict((n, pr.read(n + ".do").decode()) for n in ("top", "k0"))
                p = write_replay("C18", "concurrent-writers", dict(kind="impl-monitor", clause="every stderr line exactly once, in order, under its target (live and replay); records survive", mode=mode, j=j,
                                                                   scenario=scen, rc=rc, rc_replay=rc2, counts=counts, damaged_records=damaged[:10], split_records=[(a, b.replace(pr.root, "."), c) for a, b, c in split[:10]],
                                                                   scripts=scripts, live_tail=err[-1500:]))
                viol.append(Violation("C18", p, "%s [%s]" % ("; ".join(what), scen)))
                return stats
        finally:
            pr.destroy()
    return stats


def run(ctx):
    rng = random.Random(ctx["seed"])
    viol = ctx.setdefault("violations", [])
    s1, smp1 = record_level(ctx, rng, viol)
    s2, smp2 = ({}, [])
    s3, smp3 = ({}, [])
    s0 = {}
    if not viol:
        s0 = pretty_level(ctx, random.Random(ctx["seed"] * 104729 + 18), viol)
    if not viol:
        s2, smp2 = replay_level(ctx, rng, viol)
    if not viol:
        s3, smp3 = live_level(ctx, rng, viol)
    known_hit = []
    if viol and all(getattr(v, "no_input", False) for v in viol):
        # a correspondence broke without a failing input of its own: search the directed scenarios (each is a model-free
        # monitor on the real tool with a concrete input) for one on which the property now fails
        found = []
        for scen in (glued_record_scenario, malformed_done_scenario, killed_script_scenario, fragments_scenario, two_spellings_scenario, non_utf8_scenario, split_utf8_scenario):
            try:
                scen(ctx, found)
            except Exception:
                pass
            if found:
                break
        if found:
            found[0].what = found[0].what + " [found after: " + viol[0].what[:120] + "]"
            viol[:] = found[:1]
    if not viol:
        inband_scenario(ctx, viol, known_hit)
    s4 = {}
    if not viol:
        s4 = stale_instance_scenario(ctx, viol, known_hit) or {}
    if not viol:
        fragments_scenario(ctx, viol)
    if not viol:
        concurrent_reader_scenario(ctx, viol)
    if not viol:
        two_spellings_scenario(ctx, viol)
    if not viol:
        killed_script_scenario(ctx, viol)
    if not viol:
        glued_record_scenario(ctx, viol)
    if not viol:
        malformed_done_scenario(ctx, viol)
    if not viol:
        non_utf8_scenario(ctx, viol)
    if not viol:
        split_utf8_scenario(ctx, viol)
    if not viol:
        oob_subdir_scenario(ctx, viol)
    s6 = {}
    if not viol:
        s6 = status_line_scenario(ctx, viol) or {}
    s5 = {}
    if not viol:
        # own generator: the scenarios above keep their input streams
        s5 = concurrent_writers_level(ctx, random.Random(ctx["seed"] * 7919 + 18), viol)
    return dict(evaluations=s1["requests"] + s2.get("replays", 0) + s3.get("builds", 0),
                distinct_nontrivial=s1["parse_accepted"] + s2.get("replays", 0) - s2.get("errors", 0) + s3.get("builds", 0),
                rule="record-shaped and malformed lines from a seeded grammar (non-trivial = accepted by the parser); synthetic 6-target log forests in two directories (t0 t1 t2 sub/t3 sub/t4 sub/t5; records do/unchanged/waiting/done/other whose names are random spellings relative to the log's own directory — t1, ./t1, sub/../t1, ../sub/t4, sub//t3, sub/./t3 …; look-alikes, missing files, cycles; roots through random spellings too) replayed by the real redo-log -r with and without -u (non-trivial = replay without error); live builds of random graphs at several -j with numbered/partial/70 kB/trailing-whitespace lines; live builds of trees whose inner targets keep 1-3 background writers (and sometimes a second redo-ifchange) on their own log while redo-ifchange builds ~20 children, free-running and once under strace with every write(2) slowed down (lines per writer exactly once and in order under the target, stored records well-formed, every record written by ONE write call)",
                samples=smp1 + smp2 + smp3, disagreements_checked=s1["requests"] + s2.get("replays", 0),
                traces_validated_against_impl=s2.get("replays", 0), known_hit=known_hit,
                distribution=dict(record=s1, pretty=s0, replay=s2, live=s3, follow_oob_scenario=s4, concurrent_writers=s5, status_line=s6))
