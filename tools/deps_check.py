"""Shared check body for the properties decided on the serial dependency engine (C01 C02 C03 C05 C11 C14 C17):
histories are run through the Lean model (`deps-run`) and through the real binaries; snapshots are diffed; the
property monitors below are evaluated on the *implementation's* snapshots, independently of the model."""
import json, random, re
from concurrent.futures import ThreadPoolExecutor
from common import *
import depsgen


def current_defects():
    """Defects bits describing the current tree: read from lean/RedoModel/Current.lean."""
    txt = open(os.path.join(LEAN, "RedoModel", "Current.lean")).read()
    def bit(name):
        m = re.search(name + r"\s*:=\s*(true|false)", txt)
        return "1" if m and m.group(1) == "true" else "0"
    return bit("oobRebuildsDepsNotTarget") + bit("failedTargetAbortsRun") + bit("oobRecordsDepsOnCaller")


# ----------------------------------------------------------------------------- parsing snapshots

def parse_line(l):
    d = dict(rv=None, listing=[], ran=[], warn=[], panic=l.startswith("PANIC"))
    m = re.search(r"rv=(-?\d+) list=(\S*) ran=(\S*) warn=(\S*)", l)
    if m:
        d["rv"] = int(m.group(1))
        d["listing"] = [int(x) for x in m.group(2).split("_") if x and x.lstrip("?").isdigit()]
        d["ran"] = [x for x in m.group(3).split("_") if x]
        d["warn"] = [x for x in m.group(4).split("_") if x]
    fs = re.search(r"fs\[([^\]]*)\]", l).group(1)
    d["fs"] = dict((int(a), b) for a, b in (x.split("=") for x in fs.split() if x))
    db = re.search(r"db\[([^\]]*)\]", l).group(1)
    d["db"] = {}
    for x in db.split():
        f = x.split(":")
        d["db"][int(f[0])] = dict(gen=f[1][0] == "g", ovr=f[1][1] == "o", checked=f[2], changed=f[3], failed=f[4], stamp=f[5], csum=f[6])
    dp = re.search(r"deps\[([^\]]*)\]", l).group(1)
    d["deps"] = dp.split()
    return d


# ----------------------------------------------------------------------------- independent oracle (C01)

def oracle_content(case, fs, progs, t, user, stack=()):
    """Content a from-scratch build would give `t`, from the current sources and .do files only.
    Returns ('ok', tokens|None) or ('fail',) ; user-written files stand for themselves."""
    cur = fs.get(t)
    if t not in case.rules:
        return ("ok", cur)
    if cur is not None and t in user:
        return ("ok", cur)
    if t in stack:
        return ("fail",)
    do = next((c for c in case.rules[t] if fs.get(c) is not None), None)
    if do is None:
        return ("ok", cur) if cur is not None else ("fail",)   # no rule: an existing file is a source
    v = (int(fs[do]) - 3) // 2
    s = progs.get(v, {})
    if any(fs.get(f) is not None for f in s.get("ifcreate", [])):
        return ("fail",)
    built = {}
    for dfile in s.get("cond", []):
        if fs.get(dfile) is not None:
            r = oracle_content(case, fs, progs, dfile, user, stack + (t,))
            if r[0] == "fail":
                return ("fail",)
            built[dfile] = r[1]
        else:
            built[dfile] = None
    for c in s.get("ifchange", []):
        for dfile in c:
            r = oracle_content(case, fs, progs, dfile, user, stack + (t,))
            if r[0] == "fail":
                return ("fail",)
            if r[1] is None and dfile not in case.rules:
                return ("fail",)      # no rule to redo a missing source
            built[dfile] = r[1]
    if s.get("failIfOdd") is not None:
        x = built.get(s["failIfOdd"], fs.get(s["failIfOdd"]))
        if x is not None and x.isdigit() and int(x) >= 3 and int(x) % 2 == 1 and ((int(x) - 3) // 2) % 2 == 1:
            return ("fail",)
    if s.get("exit", 0) != 0:
        return ("fail",)
    if s.get("outMode", 1) == 2:
        return ("ok", None)
    toks = [str(2 * s.get("tag", 0) + 2)]
    for r in s.get("reads", []):
        x = built.get(r, fs.get(r) if r not in case.rules or r not in declared(s) else None)
        if r in declared(s):
            x = built.get(r)
        toks += ["0"] + ([] if x is None else x.split("_")) + ["1"]
    return ("ok", "_".join(toks))


def declared(s):
    return set(x for c in s.get("ifchange", []) for x in c) | set(s.get("cond", []))


def is_user_token(tok):
    return tok.isdigit() and int(tok) >= 203      # srcContent(v) with v >= 100: written by hand at a target's name


def well_behaved(case):
    """Scripts only read what they declared (C01/C02's domain)."""
    for o in case.ops:
        if o[0] == "p":
            s = o[2]
            if not set(s.get("reads", [])) <= declared(s):
                return False
            if s.get("stamp", 0) >= 2:
                return False      # stamps data that does not determine the output (outside C01's domain)
    return True


def closure(case, fs, progs, ts, user=()):
    seen, todo = set(), list(ts)
    while todo:
        t = todo.pop()
        if t in seen:
            continue
        seen.add(t)
        if t in case.rules and not (t in user and fs.get(t) is not None):
            do = next((c for c in case.rules[t] if fs.get(c) is not None), None)
            if do is not None:
                s = progs.get((int(fs[do]) - 3) // 2, {})
                todo += [x for c in s.get("ifchange", []) for x in c] + [x for x in s.get("cond", []) if fs.get(x) is not None]
    return seen


# ----------------------------------------------------------------------------- monitors

def monitors(case, real, want):
    """Evaluate property monitors on the implementation's snapshots.  `want` = set of property ids.
    Returns list of (prop, message, op index)."""
    out = []
    progs = {}
    user_files = {}            # file id -> token written by the user (files redo must never touch)
    hidden = {}
    converted = set()          # targets that redo legitimately turned into sources: a build found the file present and
                               # no .do candidate for it ("if you remove the .do, the target becomes a source"); from then
                               # on the file stands for itself (C11: redo must not overwrite it) until the user removes it
    prev = None
    wb = well_behaved(case)
    last_ood = None
    for i, (o, l) in enumerate(zip(case.ops, real)):
        s = parse_line(l)
        k = o[0]
        if s["panic"]:
            out.append(("C09", "redo process aborted (panic) during %r" % (o,), i))
        if k == "p":
            progs[o[1]] = o[2]
        elif k in ("w", "wp", "ws"):
            user_files[o[1]] = str(2 * o[2] + 3)
            last_ood = None
        elif k in ("r", "h"):
            if k == "h" and o[1] in user_files:
                hidden[o[1]] = user_files[o[1]]
            user_files.pop(o[1], None)
            converted.discard(o[1])
            last_ood = None
        elif k == "u":
            if o[1] in hidden and o[1] not in user_files and s["fs"].get(o[1]) == hidden[o[1]]:
                user_files[o[1]] = hidden.pop(o[1])
            last_ood = None
        elif k == "m":
            last_ood = None
        if k in ("redo", "ifc", "ood", "targets", "sources", "crash"):
            # C11: files the user wrote (at any name) are never modified or removed by a command
            for f, tok in user_files.items():
                if s["fs"].get(f) != tok:
                    out.append(("C11", "file %s (%s) written by the user was changed by %r: %r -> %r" % (f, case.names[f], o, tok, s["fs"].get(f)), i))
            # C17: read-only queries change no file; targets/sources disjoint is checked below
            if k in ("ood", "targets", "sources") and prev is not None:
                if s["fs"] != prev["fs"] or s["db"] != prev["db"] or s["deps"] != prev["deps"]:
                    out.append(("C17", "query %s changed state" % k, i))
                if s["rv"] != 0:
                    out.append(("C17", "query %s exited %s" % (k, s["rv"]), i))
        if k in ("redo", "ifc") and s["rv"] == -999:
            out.append(("C10", "command %r did not terminate (blocked by state left behind?)" % (o,), i))
        if k == "crash":
            last_ood = None
        if k in ("redo", "ifc", "crash") and prev is not None:
            before = prev["fs"]
            for t in closure(case, before, progs, o[1], set(user_files) | converted):
                if t in case.rules and before.get(t) is not None and not any(before.get(c) is not None for c in case.rules[t]):
                    converted.add(t)
        if k in ("redo", "ifc"):
            ts = o[1]
            ran = s["ran"]
            # C07/C05: nothing is executed twice within one run
            # (`redo T` forces T even if a dependent already built it in this run, so a name given to `redo` may run once more)
            forced = set(str(x) for x in ts) if k == "redo" else set()
            if any(ran.count(x) > (2 if x in forced else 1) for x in set(ran)):
                out.append(("C05", "a script ran more than once in one run: %r" % ran, i))
            if s["rv"] == 0 and wb:
                # C01: every target in the closure has from-scratch content
                for t in sorted(closure(case, s["fs"], progs, ts, set(user_files) | converted)):
                    if t in case.rules:
                        r = oracle_content(case, s["fs"], progs, t, set(user_files) | converted)
                        if r[0] == "ok" and s["fs"].get(t) != r[1] and not (r[1] is None and s["fs"].get(t) is None):
                            out.append(("C01", "after %r exit 0, target %s (%s) holds %r but a from-scratch build gives %r" % (o, t, case.names[t], s["fs"].get(t), r[1]), i))
                        elif r[0] == "fail":
                            out.append(("C01", "after %r exit 0, but target %s (%s) cannot be built from scratch" % (o, t, case.names[t]), i))
            # C05 keep-going: with -k every requested target that can be built from scratch ends up built
            if s["rv"] != 0 and o[2] and wb:
                for t in ts:
                    if t in case.rules:
                        r = oracle_content(case, s["fs"], progs, t, set(user_files) | converted)
                        if r[0] == "ok" and s["fs"].get(t) != r[1]:
                            out.append(("C05", "with --keep-going, requested target %s (%s) does not depend on a failing script but was not (re)built by %r: holds %r, expected %r" % (t, case.names[t], o, s["fs"].get(t), r[1]), i))
            # C05 stop: without -k nothing is started after the first failure is known (serial engine: the
            # scripts executed after the first failing top-level target are only those it needed itself)
            # C05: a needed script failed -> the command fails
            # (scripts report their own status through the done records; here: exit codes of the model scripts)
            if last_ood is not None and k == "ifc":
                # C17 lower bound: everything executed now that was a known target was listed by the preceding redo-ood
                for r_ in ran:
                    if r_.isdigit() and int(r_) in last_ood["targets_known"] and int(r_) not in last_ood["listing"]:
                        out.append(("C17", "target %s executed by %r was not listed by the redo-ood just before" % (r_, o), i))
                # C17 upper bound (conservative form): a listed target that this command was asked for directly and did
                # not rebuild, although the command succeeded and no checksummed target was rebuilt in it (so the listing
                # cannot be the allowed over-approximation behind a checksum)
                def is_stamped(t):
                    do = next((c for c in case.rules.get(t, []) if prev["fs"].get(c) is not None), None) if prev else None
                    sc = progs.get((int(prev["fs"][do]) - 3) // 2, {}) if do is not None and prev["fs"][do].isdigit() else {}
                    return bool(sc.get("stamp"))
                ran_ids = [int(x) for x in ran if x.isdigit()]
                if s["rv"] == 0 and not any(is_stamped(t) for t in ran_ids) and not any(is_stamped(t) for t in case.rules):
                    for t in sorted(last_ood["listing"]):
                        if t in ts and t not in ran_ids:
                            gone = not any(prev["fs"].get(c) is not None for c in case.rules.get(t, [])) if prev else False
                            out.append(("C17", "ood-upper: target %s (%s) was listed by redo-ood, then asked for by %r, which succeeded without rebuilding it; no checksummed target is involved%s" % (t, case.names[t], o, " [every .do candidate of it had been removed]" if gone else ""), i))
            last_ood = None
        if k == "ood":
            known_t = set(f for f, r in s["db"].items() if r["gen"])
            last_ood = dict(listing=set(s["listing"]), targets_known=known_t)
        prev = s
    # C17 partition on the trailing targets/sources pair and any adjacent pair
    for i in range(len(case.ops) - 1):
        if case.ops[i][0] == "targets" and case.ops[i + 1][0] == "sources":
            a, b = parse_line(real[i]), parse_line(real[i + 1])
            if set(a["listing"]) & set(b["listing"]):
                out.append(("C17", "redo-targets and redo-sources both list %r" % sorted(set(a["listing"]) & set(b["listing"])), i))
    if want & {"C02", "C03"}:
        out += overbuild_monitor(case, real)
    return [x for x in out if x[0] in want or x[0] == "C09"]


def full_closure(case, fs, progs, t):
    """Everything a build of `t` may look at, by the scripts currently in place: targets and sources it (transitively)
    declares, the .do candidates of every target on the way, and the paths watched with redo-ifcreate / conditionals.
    Returns (files, targets, has_always)."""
    files, targets, always = set(), set(), False
    todo = [t]
    while todo:
        x = todo.pop()
        if x in files:
            continue
        files.add(x)
        if x in case.rules:
            targets.add(x)
            files.update(case.rules[x])
            do = next((c for c in case.rules[x] if fs.get(c) is not None), None)
            if do is not None and fs[do].isdigit():
                sc = progs.get((int(fs[do]) - 3) // 2, {})
                always = always or bool(sc.get("always"))
                todo += [y for c in sc.get("ifchange", []) for y in c] + list(sc.get("cond", [])) + list(sc.get("ifcreate", []))
    return files, targets, always


def overbuild_monitor(case, real):
    """C02 ('only if' direction) and C03 (cut-off), decided without the model: a target whose script runs in a
    `redo-ifchange` although, since its last successful build, the user touched nothing in its closure, no other
    member of its closure was rebuilt, and it declares no redo-always.  If the only closure members rebuilt since are
    checksummed targets whose content did not change, it is a cut-off failure (C03).  Conservative: any doubt -> silent."""
    out = []
    progs, last_touched, last_ok, ran_at, snaps = {}, {}, {}, {}, []
    for i, (o, l) in enumerate(zip(case.ops, real)):
        s = parse_line(l)
        snaps.append(s)
        k = o[0]
        if k == "p":
            progs[o[1]] = o[2]
        elif k in ("w", "wp", "ws", "r", "h", "u", "m"):
            last_touched[o[1]] = i
        elif k == "crash":
            last_ok.clear()
        elif k in ("redo", "ifc"):
            ran = [int(x) for x in s["ran"] if x.isdigit()]
            forced = set(o[1]) if k == "redo" else set()
            before = snaps[i - 1]["fs"] if i else {}
            for D in ran:
                j = last_ok.get(D)
                if j is None or D in forced or ran.count(D) != 1 or before.get(D) is None:
                    continue
                files, targets, always = full_closure(case, before, progs, D)
                def stamped_same(E):
                    do = next((c for c in case.rules[E] if before.get(c) is not None), None)
                    sc = progs.get((int(before[do]) - 3) // 2, {}) if do is not None and before[do].isdigit() else {}
                    return sc.get("stamp") == 1 and snaps[j]["fs"].get(E) is not None and snaps[j]["fs"].get(E) == s["fs"].get(E)
                # C02, direct form: the script of D ran although none of the files it DIRECTLY declares changed since its
                # last successful build — every direct dependency is either untouched and not rebuilt, or a checksummed
                # target rebuilt with the same content.  (What changed lies deeper, behind a checksummed target that
                # absorbed it.)
                do_d = next((c for c in case.rules[D] if before.get(c) is not None), None)
                sc = progs.get((int(before[do_d]) - 3) // 2, {}) if do_d is not None and before[do_d].isdigit() else None
                direct = None
                if not (always or sc is None or sc.get("cond") or sc.get("ifcreate") or sc.get("failIfOdd") is not None):
                    direct = set(y for c in sc.get("ifchange", []) for y in c) | set(case.rules[D])
                    if any(last_touched.get(x, -1) > j for x in direct):
                        direct = None
                rebuilt = [] if direct is None else [E for E in direct if E in case.rules and any(j < kk <= i for kk in ran_at.get(E, []) + ([i] if E in ran else []))]
                if rebuilt and all(stamped_same(E) for E in rebuilt) and all(snaps[j]["fs"].get(x) == s["fs"].get(x) for x in direct):
                    out.append(("C02", "nested-checksum-overbuild: target %s (%s) was rebuilt by %r although every file it declares is unchanged since its last successful build (op %d); its checksummed dependencies %s were rebuilt with the same content" % (D, case.names[D], o, j, sorted(rebuilt)), i))
                if always or any(last_touched.get(x, -1) > j for x in files):
                    continue
                others = [E for E in targets if E != D and any(j < kk <= i for kk in ran_at.get(E, []) + ([i] if E in ran else []))]
                if not others:
                    out.append(("C02", "target %s (%s) was rebuilt by %r although nothing in its closure was touched or rebuilt since its last successful build (op %d)" % (D, case.names[D], o, j), i))
                    continue
                # every rebuilt closure member is either checksummed with unchanged content, or depends only on such ones
                def quiet(E, seen=()):
                    if E in seen:
                        return False
                    if stamped_same(E):
                        return True
                    _, tg, _ = full_closure(case, before, progs, E)
                    sub = [x for x in tg if x != E and x in others]
                    return False if not sub else False
                if all(stamped_same(E) for E in others):
                    out.append(("C03", "target %s (%s) was rebuilt by %r although the only members of its closure rebuilt since op %d are checksummed targets whose content did not change: %s" % (D, case.names[D], o, j, sorted(others)), i))
            for D in set(ran):
                ran_at.setdefault(D, []).append(i)
                if s["rv"] == 0:
                    last_ok[D] = i
                else:
                    last_ok.pop(D, None)
    return out


# ----------------------------------------------------------------------------- the check

def shrink(case, pred, budget=25):
    """Greedy deletion of operations while `pred(case)` stays true."""
    ops = list(case.ops)
    i = len(ops) - 1
    n = 0
    while i >= 0 and n < budget:
        if ops[i][0] != "p":
            cand = depsgen.Case(case.names, case.rules, ops[:i] + ops[i + 1:])
            n += 1
            try:
                if pred(cand):
                    ops = cand.ops
            except Exception:
                pass
        i -= 1
    return depsgen.Case(case.names, case.rules, ops)


def canon_ran(line):
    """The order in which redo-unlocked is handed several targets is a hash-set order (unspecified): the executed
    scripts are compared as a multiset."""
    return re.sub(r"ran=(\S*)", lambda m: "ran=" + "_".join(sorted(x for x in m.group(1).split("_") if x)), line)


def run_batch(cases, defects):
    reqs = [c.request(defects) for c in cases]
    model = [[canon_ran(x.strip()) for x in m.split(" | ")] for m in run_lines(MODEL, reqs)]
    with ThreadPoolExecutor(max_workers=14) as ex:
        real = [[canon_ran(l) for l in r] for r in ex.map(depsgen.run_real, cases)]
    # a disagreement may be due to that unspecified order only: try the model with the reversed order
    bad = [i for i, (m, r) in enumerate(zip(model, real)) if m != r]
    if bad:
        alt = run_lines(MODEL, [cases[i].request(defects.ljust(3, "0") + "1") for i in bad])
        for i, a in zip(bad, alt):
            am = [canon_ran(x.strip()) for x in a.split(" | ")]
            if am == real[i]:
                model[i] = am
    return model, real


def corpus_cases(prop):
    d = os.path.join(VERIF, "corpus", prop)
    out = []
    if os.path.isdir(d):
        for fn in sorted(os.listdir(d)):
            if fn.endswith(".json"):
                out.append((fn, depsgen.Case.from_json(json.load(open(os.path.join(d, fn))))))
    return out


def nested_overbuild_matcher(listed_under, inner=None):
    """Known-finding matcher for the recorded over-build behind nested checksummed targets (known_findings.json, id
    nested-checksum-overbuild, listed under `listed_under`), combined with another matcher."""
    kf = [k for k in known_findings(listed_under) if k.get("id") == "nested-checksum-overbuild" and k.get("status") == "known"]

    def matcher(case, mon):
        if kf and mon[0] == "C02" and mon[1].startswith("nested-checksum-overbuild:"):
            return "a target whose checksummed dependency was rebuilt with the SAME checksum is rebuilt all the same when what changed lies behind a second checksummed target below it (the re-decision after the out-of-band rebuild may not go out of band again, builder.rs BuildJob::start NeedTargets + no_oob)"
        return inner(case, mon) if inner else None
    return matcher


def rule_removed_matcher(listed_under, inner=None):
    """Known-finding matcher for `redo-ood` listing a target whose every .do candidate was removed (known_findings.json, id
    ood-lists-target-whose-rule-was-removed), combined with another matcher."""
    kf = [k for k in known_findings(listed_under) if k.get("id") == "ood-lists-target-whose-rule-was-removed" and k.get("status") == "known"]

    def matcher(case, mon):
        if kf and mon[0] == "C17" and mon[1].startswith("ood-upper:") and mon[1].endswith("[every .do candidate of it had been removed]"):
            return "redo-ood lists a generated file whose .do files have all been removed; the next redo-ifchange of it runs nothing and turns it into a source (the dirtiness walk does not look for rules)"
        return inner(case, mon) if inner else None
    return matcher


def run_property(ctx, prop, features, ncases, want, extra_cases=(), known_matcher=None):
    rng = random.Random(ctx["seed"] * 7919 + int(prop[1:]))
    viol = ctx.setdefault("violations", [])
    defects = current_defects()
    n = ncases * (12 if ctx["tier"] == "thorough" else 1)
    corp = corpus_cases(prop)
    cases = [c for _, c in corp] + list(extra_cases) + [depsgen.gen_case(rng, features=features) for _ in range(n)]
    if ctx.get("replay"):
        cases = [depsgen.Case.from_json(json.load(open(ctx["replay"]))["case"])]
    model, real = run_batch(cases, defects)
    stats = dict(cases=len(cases), corpus=len(corp), ops=0, commands=0, scripts_run=0, failures=0, stamped=0, oob=0, overrides=0)
    known_hit = []
    first_corr = None
    distinct = set()
    samples = []
    for ci, (c, m, r) in enumerate(zip(cases, model, real)):
        stats["ops"] += len(c.ops)
        nontriv = False
        for o, l in zip(c.ops, r):
            if o[0] in ("redo", "ifc"):
                stats["commands"] += 1
                p = parse_line(l)
                stats["scripts_run"] += len(p["ran"])
                if p["rv"] not in (0, None):
                    stats["failures"] += 1
                if p["warn"]:
                    stats["overrides"] += 1
                if len(p["ran"]) > 0:
                    nontriv = True
        if any(o[0] == "p" and o[2].get("stamp") for o in c.ops):
            stats["stamped"] += 1
        if nontriv:
            distinct.add(c.request(defects))
        mon = monitors(c, r, want)
        for entry in mon:
            pid, msg, opi = entry
            kf = known_matcher(c, entry) if known_matcher else None
            if kf:
                # a listed finding, identified by what fails and where; other failures of the same history are still examined
                if kf not in known_hit:
                    known_hit.append(kf)
                continue
            def unlisted(cc, rr):
                return [x for x in monitors(cc, rr, want) if x[0] == pid and not (known_matcher and known_matcher(cc, x))]
            def pred(cc):
                return bool(unlisted(cc, depsgen.run_real(cc)))
            small = shrink(c, pred)
            rr = depsgen.run_real(small)
            mm = unlisted(small, rr)
            p = write_replay(prop, "impl-%d" % ci, dict(kind="impl-monitor", property=pid, message=(mm or [entry])[0][1], case=small.to_json(), names=small.names, real=rr))
            viol.append(Violation(prop if pid != "C09" else prop, p, (mm or [entry])[0][1]))
            break
        if viol:
            break
        if m != r and first_corr is None:
            j = next(j for j, (a, b) in enumerate(zip(m, r)) if a != b)
            first_corr = (ci, c, j, m[j], r[j])
        if len(samples) < 2 and nontriv:
            samples.append(dict(names=c.names, ops=[depsgen.enc_op(o) for o in c.ops], last_snapshot=r[-1][:300]))
    if first_corr is not None and not viol:
        ci, c, j, a, b = first_corr
        def pred(cc):
            mm, rr = run_batch([cc], defects)
            return mm[0] != rr[0]
        small = shrink(c, pred, budget=15)
        mm, rr = run_batch([small], defects)
        jj = next((x for x, (u, v) in enumerate(zip(mm[0], rr[0])) if u != v), 0)
        p = write_replay(prop, "corr-%d" % ci, dict(kind="model-vs-impl", layer="Deps", case=small.to_json(), names=small.names, op=small.ops[jj] if jj < len(small.ops) else None, model=mm[0][jj], impl=rr[0][jj], defects=defects))
        # search for a failing input: monitors of every deps-level property on the shrunk case and on the batch
        allmon = monitors(small, rr[0], {"C01", "C02", "C03", "C05", "C11", "C14", "C17"})
        hit = [x for x in allmon if x[0] == prop]
        if not hit:
            # follow-up search: continue the disagreeing histories (shrunk and original) with one `redo-ifchange`
            # per target and one for all of them, and a batch of fresh histories; first monitor hit of this property wins
            targets = sorted(c.rules)
            follow = [("ifc", [t], False) for t in targets] + [("ifc", targets, False)]
            cands = [depsgen.Case(small.names, small.rules, list(small.ops) + follow), depsgen.Case(c.names, c.rules, list(c.ops[:j + 1]) + follow),
                     depsgen.Case(c.names, c.rules, list(c.ops) + follow)]
            cands += [depsgen.gen_case(rng, features=features) for _ in range(60)]
            with ThreadPoolExecutor(max_workers=14) as ex:
                rrs = list(ex.map(depsgen.run_real, cands))
            for cc, rr2 in zip(cands, rrs):
                rr2 = [canon_ran(l) for l in rr2]
                mm2 = [x for x in monitors(cc, rr2, {prop}) if x[0] == prop]
                if mm2 and not (known_matcher and known_matcher(cc, mm2[0])):
                    def pred2(c3):
                        return any(x[0] == prop for x in monitors(c3, [canon_ran(l) for l in depsgen.run_real(c3)], {prop}))
                    sm2 = shrink(cc, pred2, budget=25)
                    r3 = [canon_ran(l) for l in depsgen.run_real(sm2)]
                    m3 = [x for x in monitors(sm2, r3, {prop}) if x[0] == prop] or mm2
                    p = write_replay(prop, "corr-%d" % ci, dict(kind="model-vs-impl+impl-monitor", layer="Deps", message=m3[0][1], case=sm2.to_json(), names=sm2.names, real=r3,
                                                                 disagreement=dict(case=small.to_json(), op=small.ops[jj] if jj < len(small.ops) else None, model=mm[0][jj], impl=rr[0][jj]), defects=defects))
                    hit = m3
                    break
        viol.append(Violation(prop, p, "model and implementation disagree on a history (op %d: %s)%s" % (jj, depsgen.enc_op(small.ops[jj]) if jj < len(small.ops) else "?", "; " + hit[0][1] if hit else ""), no_input=not hit))
    return dict(evaluations=stats["ops"], distinct_nontrivial=len(distinct),
                rule="seeded random histories over generated projects (sources, targets with specific and default rules, checksummed/always/ifcreate/failing scripts; ops: edit/remove/chmod/hand-write files, edit/remove .do, redo, redo-ifchange [-k], redo-ood/targets/sources), every op compared on files + abstracted Files/Deps tables + executed scripts + status; non-trivial = at least one script executed; distinct by full history text",
                samples=samples, disagreements_checked=stats["ops"], traces_validated_against_impl=len(cases), distribution=stats,
                known_hit=known_hit, defects_bits=defects)
