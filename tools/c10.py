"""C10 — a kill at any moment is recovered from by simply running redo again.
Correspondence: (1) histories of the Deps differential with kill operations (the whole process tree is SIGKILLed
when a chosen script reaches a chosen step), compared op by op with the model, with the from-scratch oracle
after every later exit-0 build; (2) fault enumeration on the implementation: a rebuild is run under
`strace -f -e inject=<state-changing syscalls>:signal=KILL:when=K` for every K (the signal is delivered at
syscall entry, the call does not execute), followed by a plain recovery run, an edit and another rebuild; the same enumeration over the start-up of the very first
command of a project (no .redo yet); (3) single-process kills: only the shell that runs a target's script is SIGKILLed (the
redo process that started it survives and records the outcome), at four instants of the script."""
import random, re, shutil
from concurrent.futures import ThreadPoolExecutor
from common import *
from proj import Project, clean_env, kill_orphans
import depsgen, deps_check

ASSUMPTIONS = [
    "SQLite transactions are atomic and durable against process kill; fcntl locks vanish with their owner; rename(2) is atomic (not verified)",
    "power loss (synchronous=off) is outside the property",
    "strace's `when=K` counts matching syscalls per process, so one scenario may kill several processes, each before its K-th state-changing call",
]

SYSCALLS = "rename,renameat,renameat2,unlink,unlinkat,write,pwrite64,ftruncate,fdatasync,fsync"
# strace counts `when=K` per syscall number (the K-th rename, the K-th write, …), so kill points are (syscall, K) pairs
POINTS_QUICK = [("rename", k) for k in range(1, 5)] + [("unlink", k) for k in range(1, 7)] + [("write", k) for k in range(1, 27)] + [("pwrite64", k) for k in range(1, 4)] + [("ftruncate", 1), ("fdatasync", 1), ("fsync", 1)]
POINTS_THOROUGH = [("rename", k) for k in range(1, 8)] + [("unlink", k) for k in range(1, 12)] + [("write", k) for k in range(1, 50)] + [("pwrite64", k) for k in range(1, 8)] + [("ftruncate", k) for k in (1, 2)] + [("fdatasync", 1), ("fsync", 1), ("renameat", 1), ("unlinkat", 1)]
# the first command of a fresh project: its start-up is writes 1..27 (rollback journal, page 1, -shm, WAL header, the frames of the
# table-creating transaction), unlink 1 (journal), ftruncate 1 (-shm); a few points beyond it reach the start of the first build
POINTS_FRESH = [("write", k) for k in range(1, 33)] + [("unlink", k) for k in (1, 2)] + [("ftruncate", 1), ("rename", 1), ("pwrite64", 1), ("fsync", 1), ("fdatasync", 1)]


def with_crashes(rng, case):
    """Insert kill operations into a generated history."""
    scripts = {}
    ops = []
    tgt_of_do = {}
    for t, cs in case.rules.items():
        tgt_of_do[cs[0]] = t
    cur = {}
    for o in case.ops:
        if o[0] == "p":
            scripts[o[1]] = o[2]
        if o[0] == "w" and o[1] in tgt_of_do and o[2] in scripts:
            cur[tgt_of_do[o[1]]] = scripts[o[2]]
        if o[0] == "ifc" and cur and rng.random() < 0.45:
            t = rng.choice(sorted(cur))
            k = rng.randint(0, len(cur[t].get("ifchange", [])) + (1 if cur[t].get("stamp") and rng.random() < 0.5 else 0))
            ops.append(("crash", list(o[1]), t, k))
            if rng.random() < 0.5:
                ops.append(("ood",))
        ops.append(o)
    return depsgen.Case(case.names, case.rules, ops)


def inject_scenario(point, stats, nested=False):
    """One strace kill-injection scenario on a 3-target project; returns (problems, info).
    nested=False: the whole command runs under strace, so the top-level process (which reaches its K-th call
    first) is the one that dies; nested=True: only the redo-ifchange started by top.do runs under strace, so the
    kill hits the process that builds mid and side (or one of its children)."""
    call, K = point
    pr = Project()
    try:
        pr.write("src", "v1\n")
        pr.write("mid.do", "redo-ifchange src\n{ echo mid; cat src; } >$3\n")
        pr.write("side.do", "redo-ifchange src\necho side; cat src\n")
        pr.write("top.do", "${VERIF_RI:-redo-ifchange} mid side\ncat mid side\n")
        pr.write(".ri-wrapper", "#!/bin/sh\nexec strace -f -o /dev/null -e trace=%s -e inject=%s:signal=KILL:when=$VERIF_INJECT_K %s/redo-ifchange \"$@\"\n" % (call, call, BIN), mode=0o755)
        rc, out, err = pr.run(["redo-ifchange", "top"])
        if rc != 0:
            return ["setup build failed"], dict(K=point)
        pr.write("src", "v2\n")
        if nested:
            rc, out, err = pr.run(["redo-ifchange", "top"], env={"VERIF_RI": pr.path(".ri-wrapper"), "VERIF_INJECT_K": str(K)}, timeout=60)
        else:
            rc, out, err = pr.run(["strace", "-f", "-o", "/dev/null", "-e", "trace=" + call, "-e", "inject=%s:signal=KILL:when=%d" % (call, K),
                                   "redo-ifchange", "top"], timeout=60)
        killed = rc != 0
        stats["killed" if killed else "not_reached"] += 1
        problems = []
        rc2, out2, err2 = pr.run(["redo-ifchange", "top"], timeout=60)
        want = b"mid\nv2\nside\nv2\n"
        if rc2 == -999:
            problems.append("recovery run did not terminate within 60 s")
        elif rc2 != 0:
            problems.append("recovery run exited %d" % rc2)
        elif pr.read("top") != want:
            problems.append("after recovery top holds %r, a from-scratch build gives %r" % (pr.read("top"), want))
        overr = re.findall(r"(\S+) - you modified it; skipping", err2)
        pr.write("src", "v3\n")
        rc3, out3, err3 = pr.run(["redo-ifchange", "top"], timeout=60)
        want3 = b"mid\nv3\nside\nv3\n"
        if rc3 != 0 or pr.read("top") != want3:
            problems.append("after a later edit and rebuild (exit %d) top holds %r, expected %r" % (rc3, pr.read("top"), want3))
        left = [f for f in os.listdir(pr.root) if f.endswith(".redo.tmp")]
        if left:
            problems.append("temporary files left after recovery: %r" % left)
        return problems, dict(K="%s#%d" % (call, K), nested=nested, killed=killed, override_warnings=overr + re.findall(r"(\S+) - you modified it; skipping", err3), recovery_rc=rc2, stderr=(err2 + err3)[-800:])
    finally:
        pr.destroy()


def stamp_window_scenario():
    """Kill between `redo-stamp` (which commits changed_runid/checksum on the target's record in its own transaction,
    while the script is still running) and the recording of the build result.  Returns (stale, info)."""
    import signal, subprocess, time as _t
    pr = Project()
    try:
        pr.write("t.do", 'redo-ifchange x\ncat x >"$3"\nredo-stamp <"$3"\nif [ -e slow ]; then sleep 5; fi\n')
        pr.write("top.do", "redo-ifchange t\ncat t\n")
        pr.write("x", "v1\n")
        rc, out, err = pr.run(["redo-ifchange", "top"])
        if rc != 0 or pr.read("top") != b"v1\n":
            return None, dict(problem="setup build failed", rc=rc)
        pr.write("x", "v2\n")
        pr.write("slow", "")
        p = subprocess.Popen(["redo-ifchange", "top"], cwd=pr.root, env=clean_env(), stdout=subprocess.DEVNULL, stderr=subprocess.DEVNULL,
                             stdin=subprocess.DEVNULL, start_new_session=True)
        _t.sleep(1.2)
        try:
            os.killpg(p.pid, signal.SIGKILL)
        except ProcessLookupError:
            pass
        p.wait()
        pr.rm("slow")
        rc2, out2, err2 = pr.run(["redo-ifchange", "top"], timeout=60)
        t2, top2 = pr.read("t"), pr.read("top")
        rc_ood, ood, _ = pr.run(["redo-ood"])
        pr.write("x", "v3\n")
        rc3, out3, err3 = pr.run(["redo-ifchange", "top"], timeout=60)
        info = dict(recovery_rc=rc2, t_after_recovery=repr(t2), top_after_recovery=repr(top2), ood_after_recovery=ood.split(), after_next_edit=repr(pr.read("top")), rc3=rc3)
        stale = rc2 == 0 and (t2 != b"v2\n" or top2 != b"v2\n")
        other = rc2 != 0 or rc3 != 0 or pr.read("top") != b"v3\n"
        return (stale, dict(info, other_problem=other))
    finally:
        pr.destroy()


def dofile_row_scenario():
    """A build killed right after the .do search of a target whose specific .do was removed: the search has already
    replaced the `m` row on the old .do by a `c` row (insert-or-replace on (target, source)) and added an `m` row on
    the fallback default.do, which other targets keep current; the target's own record is untouched.  Returns
    (stale, info)."""
    import signal, subprocess, time as _t
    pr = Project()
    try:
        pr.write("default.do", 'if [ -e slow ]; then sleep 5; fi\necho "default-built $1"\n')
        pr.write("t.do", "echo specific\n")
        rc, out, err = pr.run(["redo-ifchange", "u"])
        rc2, out, err = pr.run(["redo-ifchange", "t"])
        if rc or rc2 or pr.read("t") != b"specific\n":
            return None, dict(problem="setup failed")
        pr.rm("t.do")
        pr.write("slow", "")
        p = subprocess.Popen(["redo-ifchange", "t"], cwd=pr.root, env=clean_env(), stdout=subprocess.DEVNULL, stderr=subprocess.DEVNULL, stdin=subprocess.DEVNULL, start_new_session=True)
        _t.sleep(1.0)
        try:
            os.killpg(p.pid, signal.SIGKILL)
        except ProcessLookupError:
            pass
        p.wait()
        pr.rm("slow")
        rc3, out3, err3 = pr.run(["redo-ifchange", "t"], timeout=60)
        got = pr.read("t")
        info = dict(recovery_rc=rc3, t_after_recovery=repr(got), expected="b'default-built t\\n'")
        return (rc3 == 0 and got != b"default-built t\n"), dict(info, other_problem=(rc3 != 0))
    finally:
        pr.destroy()


def cond_row_scenario():
    """A build killed right after a conditional declaration (`if [ -e f ]; then redo-ifchange f; else redo-ifcreate f; fi`)
    of a target whose watched file was removed: `redo-ifcreate f` has already replaced the `m` row (t, f) by a `c` row
    (insert-or-replace on (target, source)); the target's own record is untouched, f is absent as the `c` row demands:
    nothing says any more that t was built from f.  Found as the kernel-checked counterexample `C10.recovers_rich_is_false`
    of the recovery proof over rich histories.  Returns (stale, info)."""
    import signal, subprocess, time as _t
    pr = Project()
    try:
        pr.write("t.do", 'if [ -e f ]; then redo-ifchange f; else redo-ifcreate f; fi\nif [ -e hold ]; then sleep 5; fi\nif [ -e f ]; then cat f; else echo no-f; fi\n')
        pr.write("f", "v0\n")
        rc, out, err = pr.run(["redo-ifchange", "t"])
        if rc or pr.read("t") != b"v0\n":
            return None, dict(problem="setup failed")
        pr.rm("f")
        pr.write("hold", "")
        p = subprocess.Popen(["redo-ifchange", "t"], cwd=pr.root, env=clean_env(), stdout=subprocess.DEVNULL, stderr=subprocess.DEVNULL, stdin=subprocess.DEVNULL, start_new_session=True)
        _t.sleep(1.0)
        try:
            os.killpg(p.pid, signal.SIGKILL)
        except ProcessLookupError:
            pass
        p.wait()
        pr.rm("hold")
        rc3, out3, err3 = pr.run(["redo-ifchange", "t"], timeout=60)
        got = pr.read("t")
        info = dict(recovery_rc=rc3, t_after_recovery=repr(got), expected="b'no-f\\n'")
        return (rc3 == 0 and got != b"no-f\n"), dict(info, other_problem=(rc3 != 0))
    finally:
        pr.destroy()


def orphan_script_scenario():
    """Only the redo process that runs a script is killed (kill -9 of that one pid — what the OOM killer or a `kill` by
    hand does); its script lives on as an orphan.  The target's lock died with redo, so the next `redo-ifchange y` starts
    the script again while the orphan is still writing: two executions overlap, and what the orphan appends to `$3` by
    name afterwards lands in the NEW build's temporary file.  Returns (mixed, info): mixed = the recovery exits 0 and the
    target holds a line of the orphan."""
    import signal, subprocess, time as _t
    pr = Project()
    try:
        pr.write("y.do", 'echo "B $$" >>runs.log\necho first >"$3"\n: >started\nsleep 1.2\necho "late $(cat gen)" >>"$3"\necho "E $$" >>runs.log\n')
        pr.write("gen", "1")
        p = subprocess.Popen(["redo-ifchange", "y"], cwd=pr.root, env=clean_env(), stdout=subprocess.DEVNULL, stderr=subprocess.DEVNULL, stdin=subprocess.DEVNULL, start_new_session=True)
        t0 = _t.time()
        while not os.path.exists(pr.path("started")) and _t.time() - t0 < 20:
            _t.sleep(0.05)
        _t.sleep(0.5)
        try:
            os.kill(p.pid, signal.SIGKILL)            # this one process only
        except ProcessLookupError:
            pass
        p.wait()
        pr.write("gen", "2")
        rc3, out3, err3 = pr.run(["redo-ifchange", "y"], timeout=60)
        _t.sleep(1.0)                                  # let the orphan end
        try:
            os.killpg(p.pid, signal.SIGKILL)
        except ProcessLookupError:
            pass
        got = (pr.read("y") or b"").decode()
        log = (pr.read("runs.log") or b"").decode().split("\n")
        kinds = [l.split()[0] for l in log if l]
        overlap = kinds[:2] == ["B", "B"]
        info = dict(recovery_rc=rc3, y_after_recovery=got, expected="first\nlate 2\n", executions=log[:6], overlap=overlap)
        return (rc3 == 0 and got != "first\nlate 2\n"), dict(info, other_problem=(rc3 != 0))
    finally:
        pr.destroy()


def stale_tmp_scenario():
    """A killed build leaves its `$3` file behind; the next build of the target must start from an empty `$3` also when
    the target is built from another directory than its .do file's and the script appends to `$3`."""
    import signal, subprocess, time as _t
    problems = []
    for how, argv, cwd in (("from the project top", ["redo-ifchange", "gen/list"], "."), ("from the target's directory", ["redo-ifchange", "list"], "gen"),
                           ("through a default rule in the parent directory", ["redo-ifchange", "sub/out.lst"], ".")):
        pr = Project()
        try:
            body = 'echo one >>"$3"\nif [ -e %s ]; then sleep 5; fi\necho two >>"$3"\n'
            pr.write("gen/list.do", body % "../slow")
            pr.write("default.lst.do", body % "slow")
            os.makedirs(pr.path("sub"), exist_ok=True)
            pr.write("slow", "")
            p = subprocess.Popen(argv, cwd=pr.path(cwd), env=clean_env(), stdout=subprocess.DEVNULL, stderr=subprocess.DEVNULL, stdin=subprocess.DEVNULL, start_new_session=True)
            _t.sleep(1.0)
            try:
                os.killpg(p.pid, signal.SIGKILL)
            except ProcessLookupError:
                pass
            p.wait()
            pr.rm("slow")
            rc, out, err = pr.run(argv, cwd=cwd, timeout=60)
            tgt = "sub/out.lst" if "default" in how else "gen/list"
            got = pr.read(tgt)
            left = [os.path.join(dp, f) for dp, _, fs in os.walk(pr.root) for f in fs if f.endswith(".redo.tmp")]
            if rc != 0 or got != b"one\ntwo\n" or left:
                problems.append(dict(how=how, argv=argv, rc=rc, content=repr(got), tmp_left=left, stderr=err[-400:]))
        finally:
            pr.destroy()
    return problems


def dir_tmp_scenario():
    """A killed build whose script had created `$3` as a directory (mkdir "$3") leaves that directory behind; the next
    build must get rid of it like of a left-over file."""
    import signal, subprocess, time as _t
    problems = []
    pr = Project()
    try:
        pr.write("d.do", 'mkdir "$3"\necho x >"$3/file"\nif [ -e slow ]; then sleep 5; fi\n')
        pr.write("slow", "")
        p = subprocess.Popen(["redo-ifchange", "d"], cwd=pr.root, env=clean_env(), stdout=subprocess.DEVNULL, stderr=subprocess.DEVNULL, stdin=subprocess.DEVNULL, start_new_session=True)
        _t.sleep(1.0)
        try:
            os.killpg(p.pid, signal.SIGKILL)
        except ProcessLookupError:
            pass
        p.wait()
        pr.rm("slow")
        had = os.path.isdir(pr.path("d.redo.tmp"))
        rc, out, err = pr.run(["redo-ifchange", "d"], timeout=60)
        if rc != 0 or pr.read("d/file") != b"x\n" or os.path.lexists(pr.path("d.redo.tmp")):
            problems.append(dict(how="killed while $3 was a directory", tmp_dir_was_left_by_the_kill=had, rc=rc, target_file=repr(pr.read("d/file")), tmp_left=os.path.lexists(pr.path("d.redo.tmp")), stderr=err[-400:]))
    finally:
        pr.destroy()
    return problems


STEP_SCRIPT = """at() {
  echo $$ >"at.$1"
  n=0
  while [ -e "hold.$1" ] && [ $n -lt 600 ]; do sleep 0.05; n=$((n+1)); done
}
at 0
redo-ifchange a
at 1
redo-ifchange b
at 2
{ echo t; cat a b; } >"$3"
at 3
"""
STEP_NAMES = ["before its first redo-ifchange", "between its two redo-ifchange commands", "after its last redo-ifchange, before it writes $3", "after it has written $3"]


def script_kill_scenario(step, edit, nested, stats):
    """Exactly ONE process is SIGKILLed: the job child that runs t's script (the `sh` redo forked), at one of four
    instants of the script; the redo process that started it survives, sees the signal status and records what it
    records.  a, b -> t (-> top when nested).  Built; the sources named in `edit` are edited; the rebuild is started
    with the script told to wait at instant `step`, and the shell whose pid the script wrote down is killed there.
    Then the property's monitor: plain `redo-ifchange` of the same target exits 0 and the target is what a
    from-scratch build gives; a later edit is reacted to; no temporary output is left.  Returns (problems, info)."""
    import signal, subprocess, time as _t
    goal = "top" if nested else "t"
    pr = Project()
    try:
        pr.write("t.do", STEP_SCRIPT)
        pr.write("top.do", "redo-ifchange t\necho top; cat t\n")
        val = dict(a="a1\n", b="b1\n")
        for k, v in val.items():
            pr.write(k, v)

        def want():
            w = "t\n" + val["a"] + val["b"]
            return (("top\n" + w) if nested else w).encode()
        info = dict(step=step, edit=edit, nested=nested)
        rc, out, err = pr.run(["redo-ifchange", goal], timeout=90)
        if rc != 0 or pr.read(goal) != want():
            return ["setup build failed (exit %d)" % rc], dict(info, stderr=err[-600:])
        for k in edit:
            val[k] = k + "2\n"
            pr.write(k, val[k])
        for s in range(4):
            pr.rm("at.%d" % s)
        pr.write("hold.%d" % step, "")
        p = subprocess.Popen(["redo-ifchange", goal], cwd=pr.root, env=clean_env(), stdout=subprocess.DEVNULL, stderr=subprocess.PIPE,
                             stdin=subprocess.DEVNULL, start_new_session=True)
        pid, t0 = None, _t.time()
        while _t.time() - t0 < 60 and p.poll() is None:
            s = pr.read("at.%d" % step)
            if s and s.endswith(b"\n"):
                pid = int(s)
                break
            _t.sleep(0.02)
        if pid is not None:
            try:
                os.kill(pid, signal.SIGKILL)
            except ProcessLookupError:
                pid = None
        pr.rm("hold.%d" % step)
        try:
            _, err1 = p.communicate(timeout=90)
        except subprocess.TimeoutExpired:
            err1 = b"(the interrupted run did not end within 90 s)"
        try:
            os.killpg(p.pid, signal.SIGKILL)
        except (ProcessLookupError, PermissionError):
            pass
        if p.poll() is None:
            p.wait()
        info["interrupted_run_rc"] = p.returncode
        if pid is None:
            stats["not_reached"] += 1
            return [], dict(info, killed=False)
        stats["killed"] += 1
        problems = []
        rc2, out2, err2 = pr.run(["redo-ifchange", goal], timeout=60)
        if rc2 == -999:
            problems.append("recovery run did not terminate within 60 s")
        elif rc2 != 0:
            problems.append("recovery run exited %d" % rc2)
        elif pr.read(goal) != want():
            problems.append("recovery run exited 0 but %s holds %r, a from-scratch build gives %r" % (goal, pr.read(goal), want()))
        got2 = pr.read(goal)
        for k in ("a", "b"):
            val[k] = k + "3\n"
            pr.write(k, val[k])
            rc3, out3, err3 = pr.run(["redo-ifchange", goal], timeout=60)
            if rc3 != 0 or pr.read(goal) != want():
                problems.append("after a later edit of %s, redo-ifchange %s (exit %d) leaves %r, expected %r" % (k, goal, rc3, pr.read(goal), want()))
            err2 += err3
        left = [f for f in os.listdir(pr.root) if f.endswith(".redo.tmp")]
        if left:
            problems.append("temporary files left after recovery: %r" % left)
        return problems, dict(info, killed=True, recovery_rc=rc2, after_recovery=repr(got2), override_warnings=re.findall(r"(\S+) - you modified it; skipping", err2),
                              stderr_interrupted=err1.decode("utf-8", "replace")[-400:], stderr=err2[-600:])
    finally:
        pr.destroy()


def first_command_scenario(point, stats):
    """The very FIRST command of a project (no .redo yet) is killed before one of its state-changing calls — the
    start-up that creates .redo, the database file, switches it to WAL and commits the tables, then the build itself;
    then the same command is simply run again.  Returns (problems, info)."""
    call, K = point
    pr = Project()
    try:
        pr.write("src", "v1\n")
        pr.write("mid.do", "redo-ifchange src\n{ echo mid; cat src; } >$3\n")
        pr.write("side.do", "redo-ifchange src\necho side; cat src\n")
        pr.write("top.do", "redo-ifchange mid side\ncat mid side\n")
        rc, out, err = pr.run(["strace", "-f", "-o", "/dev/null", "-e", "trace=" + call, "-e", "inject=%s:signal=KILL:when=%d" % (call, K),
                               "redo-ifchange", "top"], timeout=60)
        killed = rc != 0
        stats["killed" if killed else "not_reached"] += 1
        try:
            dbsize = os.path.getsize(pr.path(".redo/db.sqlite3"))
        except OSError:
            dbsize = None
        problems = []
        rc2, out2, err2 = pr.run(["redo-ifchange", "top"], timeout=60)
        want = b"mid\nv1\nside\nv1\n"
        if rc2 == -999:
            problems.append("recovery run did not terminate within 60 s")
        elif rc2 != 0:
            problems.append("recovery run exited %d (%s)" % (rc2, err2.strip().splitlines()[-1][:160] if err2.strip() else ""))
        elif pr.read("top") != want:
            problems.append("after recovery top holds %r, a from-scratch build gives %r" % (pr.read("top"), want))
        pr.write("src", "v2\n")
        rc3, out3, err3 = pr.run(["redo-ifchange", "top"], timeout=60)
        want3 = b"mid\nv2\nside\nv2\n"
        if rc3 != 0 or pr.read("top") != want3:
            problems.append("after a later edit and rebuild (exit %d) top holds %r, expected %r" % (rc3, pr.read("top"), want3))
        rc4, tg, err4 = pr.run(["redo-targets"], timeout=60)
        if rc4 != 0 or not {"top", "mid", "side"} <= set(tg.split()):
            problems.append("redo-targets afterwards: exit %d, %r" % (rc4, sorted(tg.split())))
        return problems, dict(K="%s#%d" % (call, K), killed=killed, db_size_after_kill=dbsize, recovery_rc=rc2,
                              override_warnings=re.findall(r"(\S+) - you modified it; skipping", err2 + err3), stderr=(err2 + err3)[-800:])
    finally:
        pr.destroy()


def log_viewer_killed_scenario(when):
    """Exactly one redo process is killed: the `redo-log` child of the top-level command (the log viewer), at one of
    three instants of a build (while the first script runs, between two targets, right before the last script ends).
    The build goes on without its viewer; whatever it does, the state it leaves must be recoverable: the next
    redo-ifchange exits 0, every target is right, nothing is taken for hand-modified, and later edits are reacted to."""
    import subprocess, signal, time as _t
    pr = Project()
    try:
        pr.write("a", "a1\n")
        pr.write("mid.do", "redo-ifchange a\ntouch mid.started\nsleep 0.8\ncat a\n")
        pr.write("top.do", "redo-ifchange mid\ntouch top.started\nsleep 0.8\ncat mid\necho top\n")
        env = clean_env()
        p = subprocess.Popen(["redo", "top"], cwd=pr.root, env=env, stdout=subprocess.PIPE, stderr=subprocess.PIPE, stdin=subprocess.DEVNULL, start_new_session=True)
        marker = {"first-script": "mid.started", "second-script": "top.started", "late": "top.started"}[when]
        for _ in range(200):
            if os.path.exists(pr.path(marker)):
                break
            _t.sleep(0.02)
        if when == "late":
            _t.sleep(0.6)
        killed = 0
        for pid in os.listdir("/proc"):
            if not pid.isdigit():
                continue
            try:
                st = open("/proc/%s/stat" % pid).read()
                cmd = open("/proc/%s/cmdline" % pid, "rb").read().split(b"\0")
                ppid = int(st[st.rindex(")") + 2:].split()[1])
            except (OSError, ValueError):
                continue
            if ppid == p.pid and cmd and os.path.basename(cmd[0].decode("utf-8", "replace")) == "redo-log":
                try:
                    os.kill(int(pid), signal.SIGKILL)
                    killed += 1
                except ProcessLookupError:
                    pass
        try:
            out, err = p.communicate(timeout=30)
            rc0 = p.returncode
        except subprocess.TimeoutExpired:
            os.killpg(p.pid, signal.SIGKILL)
            out, err = p.communicate()
            rc0 = -999
        kill_orphans(p.pid)
        problems = []
        info = dict(when=when, viewer_killed=killed, rc_of_the_build=rc0)
        if not killed:
            return [], info
        rc1, o1, e1 = pr.run(["redo-ifchange", "top"], timeout=40)
        if rc1 != 0:
            problems.append("the recovery `redo-ifchange top` exited %d" % rc1)
        if "you modified it" in e1:
            problems.append("the recovery run takes a file redo itself installed for hand-modified")
        if pr.read("top") != b"a1\ntop\n":
            problems.append("after the recovery run top holds %r" % pr.read("top"))
        pr.write("a", "a2\n")
        rc2, o2, e2 = pr.run(["redo-ifchange", "top"], timeout=40)
        if rc2 != 0 or pr.read("top") != b"a2\ntop\n" or "you modified it" in e2:
            problems.append("after an edit of the source `redo-ifchange top` exits %d and top holds %r%s" % (rc2, pr.read("top"), " ('you modified it; skipping')" if "you modified it" in e2 else ""))
        leftovers = [f for f in os.listdir(pr.root) if f.endswith(".redo.tmp")]
        if leftovers:
            problems.append("temporary files left: %r" % leftovers)
        info["stderr_of_the_build"] = err.decode("utf-8", "replace")[-600:]
        return problems, info
    finally:
        pr.destroy()


def kill_window_matcher(listed_under):
    """Matcher for the two recorded findings of the "two-stage commit" family, as listed in known_findings.json under
    property `listed_under` (C10, and C01 — whose histories contain killed builds too)."""
    kf_stamp = [k for k in known_findings(listed_under) if k.get("id") == "stamp-before-record" and k.get("status") == "known"]
    kf_do = [k for k in known_findings(listed_under) if k.get("id") == "killed-build-forgets-old-dofile" and k.get("status") == "known"]
    kf_cond = [k for k in known_findings(listed_under) if k.get("id") == "killed-build-replaces-dependency-row" and k.get("status") == "known"]

    def matcher(case, mon):
        """A stale target after an exit-0 build is the recorded finding only if an earlier build of the history was
        killed after `redo-stamp` of a script that stamps (kill step = number of its redo-ifchange commands + 1)."""
        if mon[0] not in ("C01", "C10"):
            return None
        progs, cur = {}, {}
        tgt_of_do = {cs[0]: t for t, cs in case.rules.items()}
        for i, o in enumerate(case.ops[:mon[2] + 1]):
            if o[0] == "p":
                progs[o[1]] = o[2]
            elif o[0] == "w" and o[1] in tgt_of_do and o[2] in progs:
                cur[tgt_of_do[o[1]]] = progs[o[2]]
            elif o[0] == "crash" and kf_stamp:
                sc = cur.get(o[2], {})
                if sc.get("stamp") and o[3] == len(sc.get("ifchange", [])) + 1:
                    return "a build killed after `redo-stamp` and before the result was recorded leaves the target marked changed/checked in that run with the old file: a later redo-ifchange exits 0 with stale content (history with a kill at the after-stamp step of %s)" % case.names[o[2]]
        # the .do-search window: the stale target has several .do candidates, and a build was killed after one of its
        # candidates had been created or removed
        m = re.search(r"target (\d+) \(", mon[1])
        if m and kf_do:
            t = int(m.group(1))
            cands = case.rules.get(t, [])
            touched = False
            for o in case.ops[:mon[2] + 1]:
                if o[0] in ("w", "r") and o[1] in cands:
                    touched = True
                elif o[0] == "crash" and touched and len(cands) >= 2:
                    return "a build killed after the .do search, following a change of which .do candidate of %s exists, loses the row on the previously used .do: a later redo-ifchange exits 0 with the old script's output" % case.names[t]
        # the conditional-declaration window: the stale target's script declares conditionally, one of the files it watches
        # was created or removed, and a build was killed afterwards
        if m and kf_cond:
            t = int(m.group(1))
            watched = set(cur.get(t, {}).get("cond", []))
            touched = False
            for o in case.ops[:mon[2] + 1]:
                if o[0] in ("w", "r") and o[1] in watched:
                    touched = True
                elif o[0] == "crash" and touched:
                    return "a build killed after a conditional declaration of %s, following the creation or removal of a file it watches, has already replaced the dependency row by one of the other kind: a later redo-ifchange exits 0 with the old output" % case.names[t]
        return None
    return matcher


def run(ctx):
    rng = random.Random(ctx["seed"] * 37 + 10)
    viol = ctx.setdefault("violations", [])
    thorough = ctx["tier"] == "thorough"
    # (1) histories with kills through the shared Deps check
    feats = dict(stamp=0.3, always=0.1, fail=0.1, ifcreate=0.2, default=0.3)
    base_rng = random.Random(ctx["seed"] * 41 + 10)
    extra = [with_crashes(rng, depsgen.gen_case(base_rng, features=feats)) for _ in range(240 if thorough else 36)]
    stamp_window_matcher = kill_window_matcher("C10")
    cov = deps_check.run_property(ctx, "C10", feats, 0, {"C01", "C10"}, extra_cases=extra, known_matcher=stamp_window_matcher)
    cov["crash_ops"] = sum(1 for c in extra for o in c.ops if o[0] == "crash")
    known_hit = cov.get("known_hit", [])
    # (2) kill injection before every state-changing syscall
    if not viol:
        stats = dict(killed=0, not_reached=0)
        points = POINTS_THOROUGH if thorough else POINTS_QUICK
        kmax = 2 * len(points)
        with ThreadPoolExecutor(max_workers=10) as ex:
            res = list(ex.map(lambda pt: inject_scenario(pt, stats), points))
            res += list(ex.map(lambda pt: inject_scenario(pt, stats, nested=True), points))
        kf = [k for k in known_findings("C10") if k.get("id") == "rename-before-commit" and k.get("status") == "known"]
        window = []
        for problems, info in res:
            if not problems:
                continue
            if kf and info.get("override_warnings") and all(("top holds" in p) for p in problems):
                window.append(info["K"])
                continue
            p = write_replay("C10", "inject-%s" % info["K"], dict(kind="impl-monitor", info=info, problems=problems,
                                                                   scenario="src -> mid, side -> top; rebuild after editing src with SIGKILL injected by strace before the given call (%s, %s); then redo-ifchange top; edit; redo-ifchange top" % (info["K"], "nested redo-ifchange" if info.get("nested") else "whole command")))
            viol.append(Violation("C10", p, "kill before %s of %s: %s" % (info["K"], "the nested redo-ifchange (and of its children)" if info.get("nested") else "each process", "; ".join(problems))))
            break
        if window:
            known_hit.append("kill between rename(tmp, target) and the recording commit (kill points %s): the recovery run says 'you modified it; skipping' for a file redo itself installed, exits 0, and the target stays stale after later edits (builder.rs record_new_state, the FIXME)" % ",".join(map(str, window)))
        cov["distribution"]["inject"] = dict(points=kmax, **stats, rename_window_hits=window)
        cov["evaluations"] += kmax
    # (2a) the same enumeration over the start-up of the very first command of a project (no .redo yet)
    if not viol:
        stats = dict(killed=0, not_reached=0)
        with ThreadPoolExecutor(max_workers=10) as ex:
            res = list(ex.map(lambda pt: first_command_scenario(pt, stats), POINTS_FRESH))
        kf = [k for k in known_findings("C10") if k.get("id") == "rename-before-commit" and k.get("status") == "known"]
        window = []
        for problems, info in res:
            if not problems:
                continue
            if kf and info.get("override_warnings") and all(("top holds" in p) for p in problems):
                window.append(info["K"])
                continue
            p = write_replay("C10", "first-command-%s" % info["K"], dict(kind="impl-monitor", info=info, problems=problems,
                                                                          scenario="fresh directory (no .redo): src -> mid, side -> top; the first `redo-ifchange top` runs under strace with SIGKILL injected before the given call (%s) of each process; then redo-ifchange top; edit src; redo-ifchange top; redo-targets" % info["K"]))
            viol.append(Violation("C10", p, "first command of a fresh project killed before %s (database file then: %s bytes): %s" % (info["K"], info.get("db_size_after_kill"), "; ".join(problems))))
            break
        if window and not any("rename(tmp, target)" in k for k in known_hit):
            known_hit.append("kill between rename(tmp, target) and the recording commit, first command of a project (kill points %s)" % ",".join(map(str, window)))
        cov["distribution"]["first_command_inject"] = dict(points=len(POINTS_FRESH), **stats, rename_window_hits=window)
        cov["evaluations"] += len(POINTS_FRESH)
    # (2a') exactly one process killed: the shell that runs a target's script, at four instants of the script
    if not viol:
        stats = dict(killed=0, not_reached=0)
        cases = [(step, edit, nested) for step in range(4) for edit in ("a", "b", "ab") for nested in (False, True)]
        with ThreadPoolExecutor(max_workers=8) as ex:
            res = list(ex.map(lambda c: script_kill_scenario(c[0], c[1], c[2], stats), cases))
        for problems, info in res:
            if not problems:
                continue
            p = write_replay("C10", "script-kill-%d-%s-%s" % (info["step"], info["edit"], "nested" if info["nested"] else "direct"),
                             dict(kind="impl-monitor", info=info, problems=problems, script=STEP_SCRIPT,
                                  scenario="a, b -> t%s, t.do as given; built; %s edited; redo-ifchange %s, and kill -9 of ONLY the shell running t.do when it is at instant %d (%s); then redo-ifchange again; edit a; redo-ifchange; edit b; redo-ifchange"
                                  % (" -> top" if info["nested"] else "", " and ".join(info["edit"]), "top" if info["nested"] else "t", info["step"], STEP_NAMES[info["step"]])))
            viol.append(Violation("C10", p, "kill -9 of only the shell running t.do (%s; %s edited; %s): %s" % (STEP_NAMES[info["step"]], " and ".join(info["edit"]), "t built below top" if info["nested"] else "t asked for directly", "; ".join(problems[:3]))))
            break
        cov["distribution"]["script_kill"] = dict(cases=len(cases), **stats)
        cov["evaluations"] += len(cases)
    # (2a'') exactly one process killed: the log viewer of the top-level command
    if not viol:
        hit = 0
        for when in ("first-script", "second-script", "late"):
            problems, info = log_viewer_killed_scenario(when)
            hit += info.get("viewer_killed", 0)
            if problems:
                p = write_replay("C10", "viewer-kill-%s" % when, dict(kind="impl-monitor", info=info, problems=problems,
                                                                      scenario="a -> mid -> top (each script sleeps 0.8 s); `redo top`; kill -9 of ONLY its redo-log child (%s); then redo-ifchange top; edit a; redo-ifchange top" % when))
                viol.append(Violation("C10", p, "kill -9 of only the log viewer of `redo top` (%s): %s" % (when, "; ".join(problems[:3]))))
                break
        cov["distribution"]["viewer_kill"] = dict(cases=3, viewers_killed=hit)
        cov["evaluations"] += 3
    # (2b) a `$3` left behind by a killed build
    if not viol:
        probs = stale_tmp_scenario()
        cov["distribution"]["stale_tmp_scenarios"] = 3
        if probs:
            p = write_replay("C10", "stale-tmp", dict(kind="impl-monitor", problems=probs, scenario="list.do / default.lst.do: echo one >>$3; (slow); echo two >>$3.  first build killed during the slow part, then built again"))
            viol.append(Violation("C10", p, "after a killed build the next build of the target (%s) gives %s (expected 'one two'), rc %s, tmp left %r" % (probs[0]["how"], probs[0]["content"], probs[0]["rc"], probs[0]["tmp_left"])))
    if not viol:
        probs = dir_tmp_scenario()
        cov["distribution"]["dir_tmp_scenario"] = 1
        if probs:
            p = write_replay("C10", "dir-tmp", dict(kind="impl-monitor", problems=probs, scenario='d.do: mkdir "$3"; echo x >"$3/file"; (slow).  first build killed during the slow part, then built again'))
            viol.append(Violation("C10", p, "after a build killed while its $3 was a directory the next build of the target exits %s (temporary directory still there: %s)" % (probs[0]["rc"], probs[0]["tmp_left"])))
    # (3) the redo-stamp window
    if not viol:
        stale, info = stamp_window_scenario()
        cov["distribution"]["stamp_window"] = info
        kf2 = [k for k in known_findings("C10") if k.get("id") == "stamp-before-record" and k.get("status") == "known"]
        if stale is None or info.get("other_problem"):
            p = write_replay("C10", "stamp-window", dict(kind="impl-monitor", info=info, scenario="t.do: redo-ifchange x; cat x >$3; redo-stamp <$3; (slow tail).  build top; edit x; redo-ifchange top killed during the tail; redo-ifchange top; edit x; redo-ifchange top"))
            viol.append(Violation("C10", p, "kill after redo-stamp: recovery or the next rebuild misbehaves: %r" % info))
        elif stale:
            if kf2:
                known_hit.append("kill after `redo-stamp` and before the result is recorded: the target's record already says changed in this run with the new checksum while the file is still the old one; the recovery `redo-ifchange` exits 0 with t and top stale (until the next edit) (stamp.rs commits in its own transaction)")
            else:
                p = write_replay("C10", "stamp-window", dict(kind="impl-monitor", info=info, scenario="t.do: redo-ifchange x; cat x >$3; redo-stamp <$3; (slow tail).  build top; edit x; redo-ifchange top killed during the tail; redo-ifchange top"))
                viol.append(Violation("C10", p, "kill after redo-stamp and before the result is recorded: recovery exits 0 but t=%s top=%s (expected v2)" % (info["t_after_recovery"], info["top_after_recovery"])))
    # (4) the .do-search window
    if not viol:
        stale, info = dofile_row_scenario()
        cov["distribution"]["dofile_row_window"] = info
        kf3 = [k for k in known_findings("C10") if k.get("id") == "killed-build-forgets-old-dofile" and k.get("status") == "known"]
        if stale is None or info.get("other_problem"):
            p = write_replay("C10", "dofile-row", dict(kind="impl-monitor", info=info))
            viol.append(Violation("C10", p, "kill after the .do search: recovery misbehaves: %r" % info))
        elif stale:
            if kf3:
                known_hit.append("kill after the .do search of a target whose specific .do was removed: the `m` row on the old .do has already been replaced by a `c` row, the fallback default.do is current for other reasons, the target's record is untouched; the recovery `redo-ifchange` exits 0 and the target keeps the output of the removed script (paths::find_do_file / add_dep insert-or-replace)")
            else:
                p = write_replay("C10", "dofile-row", dict(kind="impl-monitor", info=info, scenario="default.do (used by u), t.do; build u, t; rm t.do; redo-ifchange t killed while default.do runs; redo-ifchange t"))
                viol.append(Violation("C10", p, "kill after the .do search of a target whose specific .do was removed: recovery exits 0 but t=%s (expected the default rule's output)" % info["t_after_recovery"]))
    # (5) the conditional-declaration window
    if not viol:
        stale, info = cond_row_scenario()
        cov["distribution"]["cond_row_window"] = info
        kf4 = [k for k in known_findings("C10") if k.get("id") == "killed-build-replaces-dependency-row" and k.get("status") == "known"]
        if stale is None or info.get("other_problem"):
            p = write_replay("C10", "cond-row", dict(kind="impl-monitor", info=info))
            viol.append(Violation("C10", p, "kill after a conditional declaration: recovery misbehaves: %r" % info))
        elif stale:
            if kf4:
                known_hit.append("kill right after `redo-ifcreate f` of a target that used to `redo-ifchange f` (f was removed): the `m` row (t, f) has already been replaced by a `c` row, the target's record is untouched; the recovery `redo-ifchange` exits 0 and t keeps the output computed from the removed f (add_dep insert-or-replace before anything is recorded)")
            else:
                p = write_replay("C10", "cond-row", dict(kind="impl-monitor", info=info, scenario="t.do: if [ -e f ]; then redo-ifchange f; else redo-ifcreate f; fi; (slow); cat f or echo no-f.  build t; rm f; redo-ifchange t killed during the slow part; redo-ifchange t"))
                viol.append(Violation("C10", p, "kill after a conditional declaration whose file was removed: recovery exits 0 but t=%s (expected no-f)" % info["t_after_recovery"]))
    # (6) only the redo process is killed, its script lives on
    if not viol:
        mixed, info = orphan_script_scenario()
        cov["distribution"]["orphan_script"] = info
        kf5 = [k for k in known_findings("C10") if k.get("id") == "orphan-script-overlaps-recovery" and k.get("status") == "known"]
        if info.get("other_problem"):
            p = write_replay("C10", "orphan-script", dict(kind="impl-monitor", info=info))
            viol.append(Violation("C10", p, "kill of only the redo process that runs a script: recovery misbehaves: %r" % info))
        elif mixed:
            if kf5:
                known_hit.append("kill -9 of only the redo process that runs y.do: the script lives on as an orphan, the lock died with redo, the recovery `redo-ifchange y` runs y.do again while the orphan still writes (executions %s); the orphan's late `>>$3` lands in the new build's temporary file: exit 0, y holds %r (fcntl locks are not inherited by the script; no process-group supervision)" % ("overlap" if info["overlap"] else "do not overlap", info["y_after_recovery"]))
            else:
                p = write_replay("C10", "orphan-script", dict(kind="impl-monitor", info=info, scenario="y.do: echo first >$3; sleep 1.2; echo late $(cat gen) >>$3.  redo-ifchange y; kill -9 of the redo-ifchange process only, 0.5 s into the script; edit gen; redo-ifchange y at once"))
                viol.append(Violation("C10", p, "kill of only the redo process: the recovery exits 0 but y holds %r (expected 'first\\nlate 2\\n'); the orphaned script and the new one ran at the same time: %s" % (info["y_after_recovery"], info["overlap"])))
    cov["known_hit"] = known_hit
    cov["rule"] += "; here with kill operations inserted before 45%% of the build commands (whole tree SIGKILLed when a chosen script reaches a chosen step), and a syscall-level kill enumeration (strace inject before the K-th rename/unlink/write/pwrite64/ftruncate/fsync of every process, %d points x {whole command, nested redo-ifchange}) on a 3-target project, %d points on the first command of a fresh project, and kill -9 of only the script's shell at 4 instants x 3 edits x {direct, nested}" % (len(POINTS_THOROUGH if thorough else POINTS_QUICK), len(POINTS_FRESH))
    return cov
