"""C13 — .do rule selection order and script arguments.
Correspondence: DoFiles layer in-process (candidate list with $1,$2,$3) for all small names/depths;
process level: redo-whichdo listing and the arguments/cwd echoed by instrumented scripts placed at
every candidate position; re-selection after adding / removing candidates."""
import itertools, re, random
from common import *
from proj import Project

ASSUMPTIONS = [
    "the enumeration is defined for absolute paths with a final component; a request that cleans to `/` is rejected by both sides (Rust aborts, model answers none)",
    "file existence is a parameter (`exist`) of the model's whichdo/findDoFile",
]


def parse_cands(ans):
    if ans in ("none", "bad-op", "panic"):
        return None
    out = []
    for c in ans.split(","):
        f = [unhx(x).decode("utf-8") for x in c.split("|")]
        out.append(dict(doDir=f[0], doFile=f[1], baseDir=f[2], baseName=f[3], ext=f[4], arg1=f[5], arg2=f[6], arg3=f[7]))
    return out


def process_level(ctx, rng, viol, stats):
    thorough = ctx["tier"] == "thorough"
    targets = ["a", "x.c", "d/x.tar.gz", "d/e/.hidden", "d/e/a..b", "sp ace/na me.o", "ü/日本.é.c", "d/e/f/noext"]
    if thorough:
        targets += ["d/x.", "d/...", "d/e/a.b.c.d.e", "q/.a.b"]
    samples = []
    for t in targets:
        pr = Project()
        try:
            ans = run_lines(MODEL, ["dofiles " + hx(pr.path(t))])[0]
            cands = parse_cands(ans)
            # only candidates inside the project
            inside = [c for c in cands if (c["doDir"] + "/").startswith(pr.root + "/")]
            idxs = list(range(len(inside)))
            if not thorough and len(idxs) > 5:
                idxs = sorted(set([0, 1, len(idxs) - 1] + rng.sample(idxs, 2)))
            script = 'printf "%s|%s|%s|%s" "$1" "$2" "$3" "$PWD" >"$3"\n'
            for i in idxs:
                c = inside[i]
                # fresh project state for each placement
                for root, dirs, files in os.walk(pr.root, topdown=False):
                    for f in files:
                        os.unlink(os.path.join(root, f))
                shutil.rmtree(pr.path(".redo"), ignore_errors=True)
                os.makedirs(os.path.dirname(pr.path(t)), exist_ok=True)
                dop = os.path.join(c["doDir"], c["doFile"])
                os.makedirs(c["doDir"], exist_ok=True)
                with open(dop, "w") as f:
                    f.write(script)
                stats["placements"] += 1
                rc, out, err = pr.run(["redo-whichdo", t])
                want = [os.path.relpath(os.path.join(x["doDir"], x["doFile"]), pr.root) for x in cands[:cands.index(c) + 1]]
                got = out.splitlines()
                if rc != 0 or got != want:
                    p = write_replay("C13", "whichdo", dict(kind="impl-vs-model", target=t, placed=dop, rc=rc, got=got, want=want, stderr=err[-500:]))
                    viol.append(Violation("C13", p, "redo-whichdo %r lists %d lines, model %d" % (t, len(got), len(want))))
                    return samples
                rc, out, err = pr.run(["redo", t])
                data = pr.read(t)
                want_args = "%s|%s|%s|%s" % (c["arg1"], c["arg2"], c["arg3"], c["doDir"])
                if rc != 0 or data is None or data.decode() != want_args:
                    p = write_replay("C13", "args", dict(kind="impl-vs-model", target=t, placed=dop, rc=rc, got=None if data is None else data.decode(), want=want_args, stderr=err[-800:]))
                    viol.append(Violation("C13", p, "script arguments for %r via %s differ from the model" % (t, c["doFile"])))
                    return samples
                # $3 must be beside the target: doDir/$3 == target + ".redo.tmp"
                if os.path.normpath(os.path.join(c["doDir"], c["arg3"])) != pr.path(t) + ".redo.tmp":
                    p = write_replay("C13", "arg3", dict(kind="model-property", target=t, cand=c))
                    viol.append(Violation("C13", p, "$3 is not beside the target for %r" % t))
                    return samples
                if len(samples) < 3:
                    samples.append(dict(target=t, do=os.path.relpath(dop, pr.root), echoed=data.decode().replace(pr.root, "<root>")))
                # re-selection: add a higher-priority candidate -> rebuilt with it; remove it -> back to c
                if i > 0:
                    h = inside[rng.randrange(0, i)]
                    hp = os.path.join(h["doDir"], h["doFile"])
                    os.makedirs(h["doDir"], exist_ok=True)
                    with open(hp, "w") as f:
                        f.write('printf "HIGH|%s|%s" "$1" "$2" >"$3"\n')
                    rc, out, err = pr.run(["redo-ifchange", t])
                    data = pr.read(t)
                    wantd = "HIGH|%s|%s" % (h["arg1"], h["arg2"])
                    stats["reselect"] += 1
                    if rc != 0 or data is None or data.decode() != wantd:
                        p = write_replay("C13", "reselect-add", dict(kind="impl-monitor", clause="creating a higher-priority script rebuilds with the new choice", target=t, chosen=dop, added=hp, rc=rc, got=None if data is None else data.decode(), want=wantd, stderr=err[-800:]))
                        viol.append(Violation("C13", p, "target %r not rebuilt with newly created higher-priority %s" % (t, os.path.relpath(hp, pr.root))))
                        return samples
                    os.unlink(hp)
                    rc, out, err = pr.run(["redo-ifchange", t])
                    data = pr.read(t)
                    if rc != 0 or data is None or data.decode() != want_args:
                        p = write_replay("C13", "reselect-rm", dict(kind="impl-monitor", clause="removing the chosen script rebuilds with the next choice", target=t, removed=hp, fallback=dop, rc=rc, got=None if data is None else data.decode(), want=want_args, stderr=err[-800:]))
                        viol.append(Violation("C13", p, "target %r not rebuilt with %s after the chosen script was removed" % (t, os.path.relpath(dop, pr.root))))
                        return samples
        finally:
            pr.destroy()
    return samples


def late_directory(ctx, viol, stats):
    """The target's directory does not exist at the first build (a rule higher up creates it): candidates in the
    not-yet-existing directories must be watched too."""
    for added in ("gen/out/default.txt.do", "gen/out/report.txt.do", "gen/default.do", "gen/out/default.do"):
        pr = Project()
        try:
            pr.write("default.txt.do", 'mkdir -p "$(dirname "$3")"\nprintf "ROOT|%s|%s" "$1" "$2" >"$3"\n')
            t = "gen/out/report.txt"
            rc, out, err = pr.run(["redo-ifchange", t])
            first = pr.read(t)
            rcw, outw, errw = pr.run(["redo-whichdo", t])
            listed = outw.splitlines()
            stats["placements"] += 1
            if rc != 0 or first != b"ROOT|gen/out/report.txt|gen/out/report":
                p = write_replay("C13", "late-dir-first", dict(kind="impl-monitor", rc=rc, got=None if first is None else first.decode(), stderr=err[-600:]))
                viol.append(Violation("C13", p, "first build through a root default rule into a new directory failed"))
                return
            pr.write(added, 'printf "NEW|%s|%s" "$1" "$2" >"$3"\n')
            rc, out, err = pr.run(["redo-ifchange", t])
            data = pr.read(t)
            stats["reselect"] += 1
            if rc != 0 or data is None or not data.startswith(b"NEW|"):
                p = write_replay("C13", "late-dir", dict(kind="impl-monitor", clause="creating a higher-priority script causes the target to be rebuilt with the new choice", target=t, created=added, whichdo_before=listed, rc=rc,
                                                           got=None if data is None else data.decode(), stderr=err[-600:]))
                viol.append(Violation("C13", p, "target %s (directory created by its first build) not rebuilt after %s was created" % (t, added)))
                return
        finally:
            pr.destroy()


def argv_level(ctx, viol, stats):
    """The command line a script is started with (builder.rs: `sh -e[v][x] file $1 $2 $3`, or the words of a `#!/` first
    line followed by `file $1 $2 $3`) against `Argv.argv`.  An interpreter `pa` in the project records the words it was
    started with; shell-run scripts record /proc/$$/cmdline."""
    from proj import Project
    pr = Project()
    try:
        os.makedirs(pr.path("sub"))
        pa = pr.path("pa")
        pr.write("pa", '#!/bin/sh\n{ printf "%s\\n" "$0"; for a in "$@"; do printf "%s\\n" "$a"; done; } >"$VERIF_ARGS"\necho out\n')
        os.chmod(pa, 0o755)
        dump = 'tr "\\0" "\\n" </proc/$$/cmdline >"$VERIF_ARGS"\necho out\n'
        firsts = ["#!%s" % pa, "#!%s -x y" % pa, "  #!%s lead" % pa, "#!%s  two" % pa, "#!%s trail  " % pa, "#! %s" % pa, "# plain", "#!bin/sh", "", "#!%s -e\t-u" % pa]
        n = 0
        for tgt, dofile, a1, a2, a3 in (("t", "t.do", "t", "t", "t.redo.tmp"), ("sub/u.x", "default.x.do", "sub/u.x", "sub/u", "sub/u.x.redo.tmp")):
            for fl in firsts:
                for flags in ((), ("-x",), ("-v", "-x")):
                    if flags and fl not in (firsts[0], firsts[6]):
                        continue
                    pr.write(dofile, fl + "\n" + dump)
                    out = pr.path("args.%d" % n)
                    n += 1
                    rc, o, e = pr.run(["redo"] + list(flags) + [tgt], env={"VERIF_ARGS": out})
                    got = open(out).read().split("\n")[:-1] if os.path.exists(out) else None
                    req = "argv %d %d %s %s %s %s %s" % (1 if "-v" in flags else 0, 1 if "-x" in flags else 0, hx(fl + "\n"), hx(dofile), hx(a1), hx(a2), hx(a3))
                    want = [unhx(w).decode() for w in run_lines(MODEL, [req])[0].split(",")]
                    stats["argv"] = stats.get("argv", 0) + 1
                    ok = got == want
                    if got is not None and not ok and want[0] == "sh" and got[1:] == want[1:] and got[0].endswith("sh"):
                        ok = True        # argv[0] `sh`: /proc may show the resolved shell
                    if got is None:
                        ok = rc != 0 and not os.access(want[0], os.X_OK)      # the model's interpreter word is not runnable
                    if not ok:
                        p = write_replay("C13", "argv", dict(kind="model-vs-impl", layer="Argv.argv", first_line=fl, flags=flags, target=tgt, model=want, impl=got, rc=rc, stderr=e[-400:]))
                        wrong_args = got is not None and got[-3:] != [a1, a2, a3]
                        viol.append(Violation("C13", p, "script for %s with first line %r started as %r, model %r" % (tgt, fl, got, want), no_input=not wrong_args))
                        return
    finally:
        pr.destroy()


def symlink_level(ctx, viol, stats):
    """`redo-whichdo` must list exactly the candidates the builder considers, also when the target's directory is
    reached through a symlinked directory (or through `..` after one): the listing for every spelling of one file,
    resolved to real paths, is one list, and its last line is the script that actually builds the file."""
    from proj import Project
    pr = Project()
    try:
        os.makedirs(pr.path("real/deep"))
        os.symlink("real/deep", pr.path("link"))
        os.makedirs(pr.path("other"))
        marker = 'echo "built by $0 in $PWD as $1"\n'
        pr.write("real/default.out.do", marker)
        pr.write("default.out.do", marker)
        pr.write("default.do", marker)
        spell = {"real/deep/z.out": ["real/deep/z.out", "link/z.out", "other/../link/z.out", "./real/./deep/z.out"],
                 "real/y.out": ["real/y.out", "link/../y.out", "real/deep/../y.out"]}
        for f, sps in spell.items():
            lists = {}
            for sp in sps:
                rc, out, err = pr.run(["redo-whichdo", sp])
                stats["symlink_listings"] = stats.get("symlink_listings", 0) + 1
                lists[sp] = [os.path.join(os.path.realpath(os.path.dirname(pr.path(l))), os.path.basename(l))[len(os.path.realpath(pr.root)) + 1:] for l in out.split("\n") if l]
            ref = lists[sps[0]]
            for sp in sps[1:]:
                if lists[sp] != ref:
                    p = write_replay("C13", "symlink-whichdo", dict(kind="impl-monitor", clause="redo-whichdo lists exactly the candidates considered (every spelling of one file)", file=f, spelling=sp,
                                                                     listing=lists[sp], listing_of_plain_spelling=ref, tree="real/deep, link -> real/deep, other/; real/default.out.do, default.out.do, default.do"))
                    viol.append(Violation("C13", p, "redo-whichdo %s lists %r, but for the same file spelled %s it lists %r" % (sp, lists[sp][:4], sps[0], ref[:4])))
                    return
            for sp in sps[1:2]:
                rc, out, err = pr.run(["redo", sp])
                got = (pr.read(f) or b"").decode()
                chosen = ref[-1] if ref else None
                m = re.match(r"built by (\S+) in (\S+) as", got)
                used = os.path.join(m.group(2), os.path.basename(m.group(1)))[len(os.path.realpath(pr.root)) + 1:] if m else None
                if rc != 0 or used != chosen:
                    p = write_replay("C13", "symlink-choice", dict(kind="impl-monitor", clause="the script used is the first existing candidate that redo-whichdo lists", file=f, spelling=sp, rc=rc, whichdo=lists[sp], used=used, target=got[:200], stderr=err[-400:]))
                    viol.append(Violation("C13", p, "`redo %s` was built by %r, but redo-whichdo %s ends at %r" % (sp, used, sp, lists[sp][-1:] )))
                    return
    finally:
        pr.destroy()


def shared_rule_scenario(ctx, viol, stats):
    """One default rule builds several targets.  "Removing the chosen one causes the target to be rebuilt with the new
    choice" holds for EACH of them, in whatever order and however many commands they are asked for afterwards — the
    bookkeeping for the first target's new choice must not make the others look up to date."""
    from proj import Project
    for order in (["a.c", "b.c", "c.c"], ["c.c", "a.c", "b.c"]):
        pr = Project()
        try:
            pr.write("default.c.do", 'echo "default.c 1=$1 2=$2"\n')
            pr.write("default.do", 'echo "default 1=$1 2=$2"\n')
            rc0, o, e = pr.run(["redo-ifchange", "a.c", "b.c", "c.c"])
            pr.rm("default.c.do")
            rcs = [pr.run(["redo-ifchange", t])[0] for t in order]
            stats["shared_rule"] = stats.get("shared_rule", 0) + 1
            bad = [(t, (pr.read(t) or b"").decode().strip()) for t in order if (pr.read(t) or b"").decode().strip() != "default 1=%s 2=%s" % (t, t)]
            if rc0 != 0 or any(rcs) or bad:
                p = write_replay("C13", "shared-rule", dict(kind="impl-monitor", clause="removing the chosen script causes the target to be rebuilt with the new choice", order=order, statuses=[rc0] + rcs, wrong=bad,
                                                            scenario="default.c.do and default.do; redo-ifchange a.c b.c c.c; rm default.c.do; redo-ifchange of each target, one command each"))
                viol.append(Violation("C13", p, "after default.c.do was removed, %s still holds %r (redo-ifchange exited %r); redo-whichdo names default.do" % (bad[0][0] if bad else "?", bad[0][1] if bad else "", rcs)))
                return
            # and the other way round: creating the higher-priority rule again rebuilds each of them
            pr.write("default.c.do", 'echo "default.c again 1=$1 2=$2"\n')
            rcs = [pr.run(["redo-ifchange", t])[0] for t in reversed(order)]
            bad = [(t, (pr.read(t) or b"").decode().strip()) for t in order if (pr.read(t) or b"").decode().strip() != "default.c again 1=%s 2=%s" % (t, t[:-2])]
            if any(rcs) or bad:
                p = write_replay("C13", "shared-rule-back", dict(kind="impl-monitor", clause="creating a higher-priority script causes the target to be rebuilt with the new choice", order=order, statuses=rcs, wrong=bad))
                viol.append(Violation("C13", p, "after default.c.do was created again, %s holds %r" % (bad[0][0] if bad else "?", bad[0][1] if bad else "")))
                return
        finally:
            pr.destroy()


def rule_changes_mid_call_scenario(ctx, viol, stats):
    """"The script selected for a target is the first existing one" — existing when THAT target is started.  One command
    names several targets; between two of them the set of scripts changes, because a rule is itself a generated file
    (default.x.do is built by default.x.do.do) or because an earlier target's script retires one.  Each target must be
    built by the first candidate existing at its own start; the same inside a script's `redo-ifchange a.x … b.x`."""
    from proj import Project
    cases = [("appears", ["a.x", "default.x.do", "b.x"], {"a.x": "default 1=a.x 2=a.x", "b.x": "default.x 1=b.x 2=b"}),
             ("vanishes", ["a.x", "retire", "b.x"], {"a.x": "default.x 1=a.x 2=a", "b.x": "default 1=b.x 2=b.x"})]
    for kind, order, want in cases:
        for how in ("command line", "inside a script"):
            pr = Project()
            try:
                pr.write("default.do", 'case $1 in *.x) echo "default 1=$1 2=$2";; *) echo "no rule for $1" >&2; exit 1;; esac\n')
                if kind == "appears":
                    pr.write("default.x.do.do", "echo 'echo \"default.x 1=$1 2=$2\"'\n")
                else:
                    pr.write("default.x.do", 'echo "default.x 1=$1 2=$2"\n')
                    pr.write("retire.do", "rm -f default.x.do\n")
                if how == "command line":
                    rc, o, e = pr.run(["redo", "-j1"] + order)
                else:
                    pr.write("all.do", "redo-ifchange %s\n" % " ".join(order))
                    rc, o, e = pr.run(["redo", "-j1", "all"])
                stats["rule_changes_mid_call"] = stats.get("rule_changes_mid_call", 0) + 1
                got = {t: (pr.read(t) or b"").decode().strip() for t in want}
                if rc != 0 or got != want:
                    p = write_replay("C13", "rule-%s-mid-call" % kind, dict(kind="impl-monitor", clause="the script selected for a target is the first existing one (when the target is started)",
                                                                            how=how, order=order, rc=rc, want=want, got=got, stderr=e[-800:]))
                    bad = [t for t in want if got[t] != want[t]] or ["?"]
                    viol.append(Violation("C13", p, "a rule that %s between two targets of one call (%s: %s): exit %d, %s holds %r, the first script existing at its start gives %r"
                                          % (kind, how, " ".join(order), rc, bad[0], got.get(bad[0]), want.get(bad[0]))))
                    return
            finally:
                pr.destroy()


def rule_changes_during_own_build_scenario(ctx, viol, stats):
    """"Creating a higher-priority script or removing the chosen one causes the target to be rebuilt with the new
    choice" — also when that happens while the target's own script is running (the user saves `z.do` while `z` is being
    built by default.do; a clean-up retires default.c.do while x.c is being built by it).  The build under way keeps the
    script it started with; the NEXT redo-ifchange must rebuild the target with the new choice, and then stay quiet."""
    import subprocess, time
    from proj import Project, clean_env
    cases = [("created", "z", 'echo "default 1=$1"', "z.do", 'echo "z.do 1=$1"', "z.do 1=z"),
             ("removed", "x.c", 'echo "default.c 1=$1"', None, None, "default 1=x.c")]
    for kind, t, body, newrule, newbody, want in cases:
        pr = Project()
        try:
            pr.write("default.do", ': >started.$1\nwhile [ ! -e go.$1 ]; do sleep 0.05; done\necho "default 1=$1"\n')
            if kind == "removed":
                pr.write("default.c.do", ': >started.$1\nwhile [ ! -e go.$1 ]; do sleep 0.05; done\n' + body + "\n")
            p = subprocess.Popen(["redo-ifchange", t], cwd=pr.root, env=clean_env(), stdin=subprocess.DEVNULL, stdout=subprocess.PIPE, stderr=subprocess.PIPE, start_new_session=True)
            t0 = time.time()
            while not os.path.exists(pr.path("started." + t)) and time.time() - t0 < 20:
                time.sleep(0.05)
            if kind == "created":
                pr.write(newrule, newbody + "\n")
            else:
                os.unlink(pr.path("default.c.do"))
            pr.write("go." + t, "")
            try:
                o, e = p.communicate(timeout=30)
            except subprocess.TimeoutExpired:
                p.kill()
                o, e = p.communicate()
            first = (pr.read(t) or b"").decode().strip()
            rc2, o2, e2 = pr.run(["redo-ifchange", t], timeout=30)
            second = (pr.read(t) or b"").decode().strip()
            rcw, ow, ew = pr.run(["redo-whichdo", t], timeout=30)
            stats["rule_changes_during_build"] = stats.get("rule_changes_during_build", 0) + 1
            if p.returncode != 0 or rc2 != 0 or second != want:
                pth = write_replay("C13", "rule-%s-during-build" % kind, dict(kind="impl-monitor", clause="creating a higher-priority script or removing the chosen one causes the target to be rebuilt with the new choice",
                                                                             target=t, rc_first=p.returncode, after_first=first, rc_next=rc2, after_next=second, want=want, whichdo=ow[:300], stderr=e2[-500:]))
                viol.append(Violation("C13", pth, "a rule %s while %s was being built: after the next redo-ifchange (exit %d) %s holds %r, the first existing candidate gives %r" % (kind, t, rc2, t, second, want)))
                return
        finally:
            pr.destroy()


def latin1_script_scenario(ctx, viol, stats):
    """The chosen script is run whatever bytes it contains: a .do file whose first line is not valid UTF-8 (a comment in
    Latin-1) is an ordinary sh script; one whose first line is `#!/…` with such bytes further on is still started through
    the named interpreter."""
    from proj import Project
    pr = Project()
    try:
        pr.write("t.do", b"# caf\xe9 au lait\necho ok\n")
        pr.write("u.do", b"#!/bin/sh\n# caf\xe9\necho \"via $0\" >\"$3\"\n")
        problems = []
        for t, want in (("t", b"ok\n"), ("u", None)):
            rc, o, e = pr.run(["redo", t])
            stats["latin1"] = stats.get("latin1", 0) + 1
            got = pr.read(t)
            if rc != 0 or (want is not None and got != want) or got is None:
                problems.append("`redo %s` exited %d, %s holds %r (%s)" % (t, rc, t, got, (e.strip().splitlines() or [""])[-1][:120]))
        if problems:
            p = write_replay("C13", "latin1-script", dict(kind="impl-monitor", clause="the script used for a target is the first existing candidate — whatever bytes it contains", problems=problems,
                                                          scenario="t.do: '# caf\\xe9 au lait\\necho ok' (first line not UTF-8); u.do: '#!/bin/sh' then a Latin-1 comment"))
            viol.append(Violation("C13", p, "a .do file with bytes that are not UTF-8 is not run: " + "; ".join(problems)))
    finally:
        pr.destroy()


def run(ctx):
    rng = random.Random(ctx["seed"])
    thorough = ctx["tier"] == "thorough"
    viol = ctx.setdefault("violations", [])
    L = 6 if thorough else 5
    names = ["".join(t) for n in range(1, L + 1) for t in itertools.product("a._", repeat=n)]
    names = [n for n in names if n not in (".", "..")]
    extra = ["é.tar.gz", "naïve.tar.gz", "日本.c", "a b.c d", "x.é", ".é.", "a\tb.c", "foo.gen.c", "a.b.c.d.e.f.g"]
    dirs = ["/", "/qa", "/qa/qb", "/qa/qb/q.c", "/qü/q b", "/qa/../qb/./", "//qa//qb/"]
    if thorough:
        dirs += ["/qa/qb/qc/qd/qe", "/qa/qb/../../qc"]
    lines = []
    for d in dirs:
        for n in names + extra:
            lines.append("dofiles " + hx(d.rstrip("/") + "/" + n if d != "/" else "/" + n))
    lines += ["dofiles " + hx(x) for x in ["/", "//", "/.", "/..", "/qa/..", "/qa/.", "/qa/", "/qa/qb/.."]]
    for _ in range(2000 if thorough else 300):
        k = rng.randint(0, 5)
        p = "/" + "/".join(rng.choice(["qa", "q.b", "..", ".", "qé", "q c"]) for _ in range(k))
        lines.append("dofiles " + hx(p.rstrip("/") + "/" + rng.choice(names + extra)))
    diffs, m, impl = diff_lines(lines)
    stats = dict(placements=0, reselect=0)
    samples = []
    if diffs:
        l, a, b = min(diffs, key=lambda d: len(d[0]))
        # search for a failing input: does the implementation's own list violate the stated order?
        req = unhx(l.split()[1]).decode()
        p = write_replay("C13", "corr", dict(kind="model-vs-impl", layer="DoFiles", request=l, path=req, model=parse_cands(a), impl=parse_cands(b), count=len(diffs)))
        bad = impl_order_violation(parse_cands(b), req)
        viol.append(Violation("C13", p, "candidate list for %r differs from the model%s" % (req, "; implementation order violates the documented order: " + bad if bad else ""), no_input=not bad))
    else:
        samples = process_level(ctx, rng, viol, stats)
        if not viol:
            late_directory(ctx, viol, stats)
        if not viol:
            argv_level(ctx, viol, stats)
        if not viol:
            symlink_level(ctx, viol, stats)
        if not viol:
            shared_rule_scenario(ctx, viol, stats)
        if not viol:
            latin1_script_scenario(ctx, viol, stats)
        if not viol:
            rule_changes_mid_call_scenario(ctx, viol, stats)
        if not viol:
            rule_changes_during_own_build_scenario(ctx, viol, stats)
    ncand = sum(len(parse_cands(x) or []) for x in impl)
    return dict(evaluations=len(lines) + stats["placements"] * 2 + stats["reselect"] * 2,
                distinct_nontrivial=len(set(l for l, r in zip(lines, impl) if r != "none" and r.count(",") >= 2)),
                rule="dofiles requests: all names over {a . _} up to length %d (+ unicode/space names) x %d directory spellings, + random; non-trivial = at least 3 candidates; process level: a script placed at candidate positions of %s targets, redo-whichdo and echoed $1/$2/$3/cwd compared with the model, then add/remove of a higher-priority script" % (L, len(dirs), "12" if thorough else "8"),
                samples=[dict(request=lines[7], model=m[7], impl=impl[7])] + samples, disagreements_checked=len(lines),
                distribution=dict(requests=len(lines), candidates_total=ncand, placements=stats["placements"], reselections=stats["reselect"]))


def impl_order_violation(cands, req):
    """Independent statement of the documented order, evaluated on the implementation's list."""
    if not cands:
        return "no candidates"
    t = os.path.normpath(req)
    d, f = os.path.split(t)
    exp = [(d, f + ".do")]
    cur = d
    while True:
        for i, ch in enumerate(f):
            if ch == ".":
                exp.append((cur, "default" + f[i:] + ".do"))
        exp.append((cur, "default.do"))
        if cur == "/":
            break
        cur = os.path.dirname(cur)
    got = [(c["doDir"], c["doFile"]) for c in cands]
    if got != exp:
        return "got %r, documented %r" % (got[:4], exp[:4])
    for c in cands:
        if os.path.normpath(os.path.join(c["doDir"], c["arg1"])) != t or c["arg2"] + c["ext"] != c["arg1"]:
            return "arguments of %r do not name the target" % (c,)
    return None
