#!/usr/bin/env python3
"""Write the results of tools/seed_matrix.sh (lines `<id> <patch> <result…>`) into seeded/<id>/meta.json (`detected_by`)
and print a summary table.  usage: apply_matrix.py <matrix output file>"""
import json, os, re, sys
V = os.path.dirname(os.path.dirname(os.path.abspath(__file__)))
res = {}
for l in open(sys.argv[1]):
    m = re.match(r"(C\d\d) (patch\d*\.diff) (.*)", l.strip())
    if m:
        res[(m.group(1), m.group(2))] = m.group(3)
own, other, missed, na = [], [], [], []
for (pid, patch), r in sorted(res.items()):
    p = os.path.join(V, "seeded", pid, "meta.json")
    meta = json.load(open(p))
    for c in meta["changes"]:
        if c["patch"] != patch:
            continue
        tag = "%s#%s" % (pid, re.search(r"patch(\d*)", patch).group(1) or "1")
        if r.startswith("VIOLATION"):
            c["detected_by"] = "%s quick: %s" % (pid, re.sub(r"replay=\S+ ", "", r)[:240])
            own.append(tag)
        elif r.startswith("MISSED-BY-OWN-CHECK"):
            m2 = re.match(r"MISSED-BY-OWN-CHECK caught-by=(C\d\d) (.*)", r)
            c["detected_by"] = "%s quick (its own check %s missed it at seed 1): %s" % (m2.group(1), pid, re.sub(r"replay=\S+ ", "", m2.group(2))[:240])
            other.append("%s(→%s)" % (tag, m2.group(1)))
        elif r == "DOES-NOT-APPLY":
            c["detected_by"] = None
            c.setdefault("status", "obsolete: no longer applies to HEAD after later fixes")
            na.append(tag)
        else:
            c["detected_by"] = None
            missed.append(tag)
    json.dump(meta, open(p, "w"), indent=1)
print("caught by own check (%d): %s" % (len(own), " ".join(own)))
print("caught by another check (%d): %s" % (len(other), " ".join(other)))
print("missed by all (%d): %s" % (len(missed), " ".join(missed)))
print("do not apply (%d): %s" % (len(na), " ".join(na)))
