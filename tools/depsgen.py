"""Histories for the serial dependency engine: generator, renderer for the model's `deps-run` verb, and
runner of the real binaries (at -j1) producing the same canonical snapshot lines."""
import os, random, re, sqlite3, stat
from proj import Project

RUNID_BASE = 1000000000


class Case:
    """files: id -> name;  rules: target id -> [do ids];  ops: list of tuples (see enc_op)."""

    def __init__(self, names, rules, ops):
        self.names, self.rules, self.ops = names, rules, ops
        self.n = max(names) + 1

    def enc_rules(self):
        if not self.rules:
            return "-"
        return ";".join("%d:%s" % (t, ".".join(map(str, cs))) for t, cs in sorted(self.rules.items()))

    def request(self, defects="00"):
        return "deps-run %s %d %s %s" % (defects, self.n, self.enc_rules(), ";".join(enc_op(o) for o in self.ops))

    def to_json(self):
        return dict(names=self.names, rules=self.rules, ops=self.ops)

    @staticmethod
    def from_json(j):
        return Case({int(k): v for k, v in j["names"].items()}, {int(k): v for k, v in j["rules"].items()}, [tuple(o) if not isinstance(o, tuple) else o for o in map(_detuple, j["ops"])])


def _detuple(o):
    o = list(o)
    if o[0] == "p":
        o[2] = dict(o[2])
    return tuple(o)


def nl(l):
    return "_".join(map(str, l)) if l else "-"


def enc_script(s):
    return ",".join(["1" if s.get("always") else "0", nl(s.get("ifcreate", [])),
                     "+".join(nl(c) for c in s.get("ifchange", [])) if s.get("ifchange") else "-",
                     "-" if s.get("failIfOdd") is None else str(s["failIfOdd"]), nl(s.get("reads", [])),
                     str(s.get("tag", 0)), str(s.get("outMode", 1)), str(s.get("stamp", 0)), str(s.get("exit", 0)), nl(s.get("cond", []))])


def enc_op(o):
    k = o[0]
    if k in ("w", "wp", "ws"):
        return "w.%d.%d" % (o[1], o[2])
    if k == "r":
        return "r.%d" % o[1]
    if k == "m":
        return "m.%d" % o[1]
    if k == "h":
        return "h.%d" % o[1]
    if k == "u":
        return "u.%d" % o[1]
    if k == "p":
        return "p.%d.%s" % (2 * o[1] + 3, enc_script(o[2]))
    if k == "crash":
        return "x.%d.%d.%s" % (o[2], o[3], nl(o[1]))
    if k == "redo":
        return "c.redo.%d.%s" % (1 if o[2] else 0, nl(o[1]))
    if k == "ifc":
        return "c.ifc.%d.%s" % (1 if o[2] else 0, nl(o[1]))
    return "c." + k


def render_script(case, v, s):
    """Shell text of a .do file whose model content is srcContent(v)."""
    N = case.names
    L = ["# v=%d" % v, 'echo "$1" >>"$VERIF_TRACE"']
    if s.get("always"):
        L.append("redo-always")
    if s.get("ifcreate"):
        L.append("redo-ifcreate " + " ".join(N[f] for f in s["ifcreate"]))
    for f in s.get("cond", []):
        L.append("if [ -e %s ]; then redo-ifchange %s; else redo-ifcreate %s; fi" % (N[f], N[f], N[f]))
    crash = 'if [ "$VERIF_CRASH_AT" = "$1:%d" ]; then kill -9 0; sleep 5; fi'
    for kk, c in enumerate(s.get("ifchange", [])):
        L.append(crash % kk)
        L.append("redo-ifchange " + " ".join(N[f] for f in c))
    L.append(crash % len(s.get("ifchange", [])))
    if s.get("failIfOdd") is not None:
        f = N[s["failIfOdd"]]
        L.append('if [ -e %s ]; then tok=$(cat %s); case "$tok" in *[!0-9]*) ;; *) if [ "$tok" -ge 3 ] && [ $(( tok %% 2 )) = 1 ] && [ $(( (tok - 3) / 2 %% 2 )) = 1 ]; then exit 1; fi;; esac; fi' % (f, f))
    L.append("out='%d'" % (2 * s.get("tag", 0) + 2))
    for f in s.get("reads", []):
        L.append('if [ -e %s ]; then out="$out 0 $(cat %s) 1"; else out="$out 0 1"; fi' % (N[f], N[f]))
    om = s.get("outMode", 1)
    if om == 0:
        L.append('printf "%s" "$out"')
    elif om == 1:
        L.append('printf "%s" "$out" >"$3"')
    st = s.get("stamp", 0)
    if st == 1:
        L.append('printf "%s\\n" "$out" >>"$VERIF_TRACE.outs"')
        L.append('printf "%s" "$out" | redo-stamp')
    elif st >= 2:
        L.append("printf 'K%d' | redo-stamp" % (st - 2))
    if st:
        L.append(crash % (len(s.get("ifchange", [])) + 1))     # a kill after redo-stamp, before the script ends
    L.append("exit %d" % s.get("exit", 0))
    return "\n".join(L) + "\n"


def _one_stamp_matches(part, st):
    parts = part.split("-")
    if len(parts) != 6:
        return False
    try:
        mt = float(parts[0])
    except ValueError:
        return False
    return abs(mt - st.st_mtime_ns / 1e9) < 2.5e-6 and parts[1:] == [str(st.st_size), str(st.st_ino), str(st.st_mode), str(st.st_uid), str(st.st_gid)]


def cur_stamp_matches(dbstamp, path):
    """Does the recorded stamp describe the file as it is now?  (state.rs read_stamp: lstat; for a symbolic link the
    stamp is `<link stamp>+<stamp of what it points to>`.)"""
    try:
        st = os.lstat(path)
    except FileNotFoundError:
        return False
    if stat.S_ISDIR(st.st_mode):
        return dbstamp == "dir"
    if stat.S_ISLNK(st.st_mode):
        if "+" not in dbstamp:
            return False
        a, b = dbstamp.split("+", 1)
        try:
            tgt = os.stat(path)
        except FileNotFoundError:
            return False
        return _one_stamp_matches(a, st) and (b == "dir" if stat.S_ISDIR(tgt.st_mode) else _one_stamp_matches(b, tgt))
    return _one_stamp_matches(dbstamp, st)


def file_tokens(case, pr, f, dover):
    data = pr.read(case.names[f])
    if data is None:
        return None
    txt = data.decode("utf-8", "replace")
    m = re.match(r"# v=(\d+)\n", txt)
    if m:
        return str(2 * int(m.group(1)) + 3)
    return "_".join(txt.split())


def real_snapshot(case, pr, csum_names):
    ids = {n: i for i, n in case.names.items()}
    files = []
    for f in range(case.n):
        if f in case.names:
            t = file_tokens(case, pr, f, None)
            if t is not None:
                files.append("%d=%s" % (f, t))
    recs, deps = [], []
    dbp = pr.path(".redo/db.sqlite3")
    if os.path.exists(dbp):
        db = sqlite3.connect("file:%s?mode=ro" % dbp, uri=True, timeout=30)
        rows = db.execute("select rowid,name,is_generated,is_override,checked_runid,changed_runid,failed_runid,stamp,csum from Files").fetchall()
        rid = {}
        for r in rows:
            name = r[1]
            f = 0 if name == "//ALWAYS" else ids.get(name)
            if f is None:
                continue
            rid[r[0]] = f

            def rel(x):
                return "-" if x is None else str(x - RUNID_BASE if x >= RUNID_BASE else x)
            st = r[7]
            if st is None:
                sc = "none"
            elif st == "0":
                sc = "missing"
            else:
                sc = "cur" if f != 0 and cur_stamp_matches(st, pr.path(case.names[f])) else "other"
            cs = "-" if not r[8] else csum_names.get(r[8], "?" + r[8][:6])
            recs.append((f, "%d:%s%s:%s:%s:%s:%s:%s" % (f, "g" if r[2] else "-", "o" if r[3] else "-", rel(r[4]), rel(r[5]), rel(r[6]), sc, cs)))
        for t, s, mode, dm in db.execute("select target,source,mode,delete_me from Deps"):
            if t in rid and s in rid:
                deps.append((rid[t], rid[s], "%d>%d%s%s" % (rid[t], rid[s], mode, "!" if dm else "")))
        db.close()
    else:
        recs.append((0, "0:--:-:-:-:none:-"))
    recs.sort()
    deps.sort()
    return "fs[%s] db[%s] deps[%s]" % (" ".join(files), " ".join(r[1] for r in recs), " ".join(d[2] for d in deps))


def run_real(case, keep=False, extra_env=None):
    """Returns the list of snapshot lines (same format as the model) and the project (if keep)."""
    import hashlib
    pr = Project()
    lines = []
    progs = {}
    csum_names = {}
    trace = pr.path(".verif-trace")
    env = {"VERIF_TRACE": trace, "REDO_LOG": "0", "REDO_PRETTY": "0", "REDO_COLOR": "0"}
    if extra_env:
        env.update(extra_env)
    try:
        for o in case.ops:
            k = o[0]
            res = None
            if k == "w":
                f, v = o[1], o[2]
                if v in progs and case.names[f].endswith(".do"):
                    pr.write(case.names[f], render_script(case, v, progs[v]))
                else:
                    pr.write(case.names[f], str(2 * v + 3))
            elif k == "ws":
                # the user's file is a symbolic link to a regular file kept elsewhere (fresh link, fresh pointee)
                real_name = ".real-%s-%d" % (case.names[o[1]], len(lines))
                pr.write(real_name, str(2 * o[2] + 3))
                pr.rm(case.names[o[1]])
                os.symlink(real_name, pr.path(case.names[o[1]]))
            elif k == "wp":
                # replace by hand keeping the old mtime (cp -p / rsync -t): only the size (and inode) differ
                pth = pr.path(case.names[o[1]])
                old = os.stat(pth) if os.path.exists(pth) else None
                pr.write(case.names[o[1]], str(2 * o[2] + 3))
                if old is not None:
                    os.utime(pth, ns=(old.st_atime_ns, old.st_mtime_ns))
            elif k == "r":
                pr.rm(case.names[o[1]])
            elif k == "h":
                if os.path.exists(pr.path(case.names[o[1]])):
                    os.rename(pr.path(case.names[o[1]]), pr.path(".away-" + case.names[o[1]]))
            elif k == "u":
                if os.path.exists(pr.path(".away-" + case.names[o[1]])) and not os.path.exists(pr.path(case.names[o[1]])):
                    os.rename(pr.path(".away-" + case.names[o[1]]), pr.path(case.names[o[1]]))
            elif k == "m":
                p = pr.path(case.names[o[1]])
                if os.path.exists(p):
                    mo = stat.S_IMODE(os.stat(p).st_mode)
                    os.chmod(p, (mo & ~0o077) | ((mo + 1) & 0o077))
            elif k == "p":
                progs[o[1]] = o[2]
            else:
                open(trace, "w").close()
                crash_env = {}
                if k == "crash":
                    argv = ["redo-ifchange"] + [case.names[t] for t in o[1]]
                    crash_env = {"VERIF_CRASH_AT": "%s:%d" % (case.names[o[2]], o[3])}
                elif k == "redo":
                    argv = ["redo"] + (["-k"] if o[2] else []) + [case.names[t] for t in o[1]]
                elif k == "ifc":
                    argv = ["redo-ifchange"] + [case.names[t] for t in o[1]]
                    if o[2]:
                        env2 = dict(env, REDO_KEEP_GOING="1")
                else:
                    argv = ["redo-" + k]
                rc, out, err = pr.run(argv, env=dict(env, REDO_KEEP_GOING="1") if (k == "ifc" and o[2]) else dict(env, **crash_env), timeout=120)
                ids = {n: i for i, n in case.names.items()}
                ran = [str(ids.get(l, "?" + l)) for l in open(trace).read().split("\n") if l]
                warn = [str(ids.get(m, "?" + m)) for m in re.findall(r"@@ (\S+) - you modified it; skipping", err)]
                listing = ""
                if k in ("ood", "targets", "sources"):
                    listing = "_".join(str(x) for x in sorted(ids.get(l, 10 ** 6) for l in out.split("\n") if l))
                res = "rv=%d list=%s ran=%s warn=%s " % (rc, listing, "_".join(ran), "_".join(warn))
                if rc == 101 or "panicked" in err:
                    res = "PANIC " + res + "[" + err[-300:].replace("\n", " ") + "] "
            # register checksum names: sha1 of every current file content and of the K<k> constants
            for f in case.names:
                d = pr.read(case.names[f])
                if d is not None and len(d) < 4096:
                    t = file_tokens(case, pr, f, None)
                    csum_names[hashlib.sha1(d).hexdigest()] = t
            if os.path.exists(trace + ".outs"):
                for l in open(trace + ".outs").read().split("\n"):
                    if l:
                        csum_names[hashlib.sha1(l.encode()).hexdigest()] = "_".join(l.split())
            for kc in range(0, 6):
                csum_names[hashlib.sha1(b"K%d" % kc).hexdigest()] = str(kc)
            lines.append((res or "") + real_snapshot(case, pr, csum_names))
    finally:
        if not keep:
            pr.destroy()
    return (lines, pr) if keep else lines


# ---------------------------------------------------------------- generator

def gen_case(rng, size=None, features=None):
    """A project: sources, targets with specific rules (ranked: depend on lower ids only), optionally
    targets built by default.x.do / default.do; a history of ~8-14 operations."""
    feats = features or {}
    nsrc = rng.randint(1, 3)
    ntgt = size or rng.randint(2, 5)
    names = {0: "//ALWAYS"}
    fid = 1
    srcs = []
    for i in range(nsrc):
        names[fid] = "s%d" % fid
        srcs.append(fid)
        fid += 1
    watch = None
    if rng.random() < feats.get("ifcreate", 0.35):
        names[fid] = "w%d" % fid
        watch = fid
        fid += 1
    tgts = []
    for i in range(ntgt):
        # (the first letter varies so that the name order — the order in which the queries visit files — is not the
        # dependency order)
        pre = rng.choice(["t", "t", "a", "z"])
        names[fid] = "%s%d.x" % (pre, fid) if rng.random() < 0.6 else "%s%d" % (pre, fid)
        tgts.append(fid)
        fid += 1
    use_default = rng.random() < feats.get("default", 0.4)
    dx = dd = None
    if use_default:
        names[fid] = "default.x.do"
        dx = fid
        fid += 1
        names[fid] = "default.do"
        dd = fid
        fid += 1
    rules, spec = {}, {}
    for t in (srcs + ([watch] if watch is not None else []) if use_default else []):
        # with default rules around, every name has candidates (a missing source is built by default.do)
        names[fid] = names[t] + ".do"
        rules[t] = [fid, dd]
        fid += 1
    for t in tgts:
        names[fid] = names[t] + ".do"
        spec[t] = fid
        fid += 1
        c = [spec[t]]
        if use_default:
            if names[t].endswith(".x"):
                c.append(dx)
            c.append(dd)
        rules[t] = c
    ver = [10]

    def newv():
        ver[0] += 1
        return ver[0]

    def mk_script(t, lower):
        deps = [d for d in lower if rng.random() < 0.6]
        if not deps and lower and rng.random() < 0.8:
            deps = [rng.choice(lower)]
        rng.shuffle(deps)
        cmds = []
        if deps:
            if len(deps) > 1 and rng.random() < 0.3:
                k = rng.randint(1, len(deps) - 1)
                cmds = [deps[:k], deps[k:]]
            else:
                cmds = [deps]
        s = dict(ifchange=cmds, reads=list(deps), tag=rng.randint(1, 9), outMode=rng.choice([0, 1, 1, 1, 2] if rng.random() < 0.15 else [0, 1, 1]))
        if rng.random() < feats.get("stamp", 0.3):
            s["stamp"] = 1 if rng.random() < 0.7 else 2 + rng.randint(0, 2)
        if rng.random() < feats.get("always", 0.15):
            s["always"] = True
        if watch is not None and rng.random() < 0.4:
            if rng.random() < 0.5:
                s["ifcreate"] = [watch]
            else:
                s["cond"] = [watch]
                s["reads"] = s["reads"] + [watch]
        if rng.random() < feats.get("fail", 0.2) and srcs:
            fl = rng.choice(lower if t is None else srcs)
            s["failIfOdd"] = fl
            if not any(fl in c for c in s["ifchange"]):
                s["ifchange"] = s["ifchange"] + [[fl]]
        if rng.random() < feats.get("exitfail", 0.06):
            s["exit"] = rng.choice([1, 7])
        if rng.random() < 0.1 and lower:
            # undeclared read (reads a file it did not declare)
            s["reads"] = s["reads"] + [rng.choice(lower)]
        return s

    ops = []
    for s in srcs:
        ops.append(("w", s, 0))
    has_spec = {}
    for i, t in enumerate(tgts):
        lower = srcs + tgts[:i]
        if use_default and rng.random() < 0.35:
            has_spec[t] = False
            continue
        v = newv()
        ops.append(("p", v, mk_script(t, lower)))
        ops.append(("w", spec[t], v))
        has_spec[t] = True
    if use_default:
        for dfile in (dx, dd):
            if rng.random() < 0.8:
                v = newv()
                ops.append(("p", v, mk_script(None, srcs[:1])))
                ops.append(("w", dfile, v))
    srcver = {s: 0 for s in srcs}
    nops = rng.randint(6, 13)
    for _ in range(nops):
        r = rng.random()
        if r < 0.33:
            k = rng.randint(1, min(3, len(tgts)))
            ts = rng.sample(tgts, k)
            if rng.random() < 0.08 and srcs:
                ts.append(rng.choice(srcs))
            ops.append(("ifc", ts, rng.random() < 0.2))
        elif r < 0.40:
            ops.append(("redo", rng.sample(tgts, rng.randint(1, 2)), rng.random() < 0.2))
        elif r < 0.58:
            s = rng.choice(srcs)
            srcver[s] += 1 if rng.random() < 0.7 else 2
            ops.append(("w", s, srcver[s]))
        elif r < 0.64:
            ops.append(("r", rng.choice(tgts)))
        elif r < 0.68:
            ops.append(("r", rng.choice(srcs[1:] if use_default and len(srcs) > 1 else srcs if not use_default else tgts)))
        elif r < 0.73:
            # hand-edit / create a file at a target's name (sometimes keeping the old mtime, with another size)
            q = rng.random()
            if q < 0.35:
                ops.append(("wp", rng.choice(tgts), 1000 + rng.randint(0, 5)))
            elif q < 0.35 + feats.get("symlink", 0.0):
                ops.append(("ws", rng.choice(tgts), 100 + rng.randint(0, 5)))
            else:
                ops.append(("w", rng.choice(tgts), 100 + rng.randint(0, 5)))
        elif r < 0.73 + feats.get("handedit2", 0.0):
            # the user edits a generated (or would-be generated) file, a command sees it, the user edits it again
            t = rng.choice(tgts)
            ops.append((rng.choice(["w", "w", "ws"]) if feats.get("symlink") else "w", t, 100 + rng.randint(0, 5)))
            ops.append(("ifc", [t] + ([rng.choice(tgts)] if rng.random() < 0.4 else []), False) if rng.random() < 0.7 else ("redo", [t], False))
            ops.append((rng.choice(["w", "wp"]), t, 110 + rng.randint(0, 5)))
            ops.append(("redo", [t], False) if rng.random() < 0.5 else ("ifc", [t], False))
            if rng.random() < 0.6:
                # whatever depends on it is brought up to date, and then nothing must run any more
                ops.append(("ifc", list(tgts), False))
                ops.append(("ifc", list(tgts), False))
        elif r < 0.73 + feats.get("handedit2", 0.0) + feats.get("editrm", 0.0):
            # a generated target is edited by hand, everything is brought up to date, the file is removed and
            # everything is brought up to date again (the regenerated file may have the data it had before the edit)
            t = rng.choice(tgts)
            ops.append(("w", t, 100 + rng.randint(0, 5)))
            ops.append(("ifc", list(tgts), False))
            ops.append(("r", t))
            if rng.random() < 0.6:
                # what do the queries say about a target whose hand-made replacement is gone again?
                ops.append(("ood",))
                ops.append(("targets",))
                ops.append(("sources",))
            ops.append(("ifc", list(tgts), False))
        elif r < 0.80:
            t = rng.choice(tgts)
            i = tgts.index(t)
            v = newv()
            ops.append(("p", v, mk_script(t, srcs + tgts[:i])))
            ops.append(("w", spec[t], v))
        elif r < 0.815 and use_default:
            # a rule shared by several targets is edited, then targets are asked for one at a time
            dfile = rng.choice([dx, dd])
            v = newv()
            ops.append(("p", v, mk_script(None, srcs[:1])))
            ops.append(("w", dfile, v))
            for t in rng.sample(tgts, min(len(tgts), rng.randint(1, 3))):
                ops.append(("ifc", [t], False))
        elif r < 0.84:
            ops.append(("r", rng.choice(list(spec.values()) + ([dx, dd] if use_default else []))))
        elif r < 0.87 and watch is not None:
            q = rng.random()
            ops.append(("w", watch, 0) if q < 0.45 else ("r", watch) if q < 0.6 else ("h", watch) if q < 0.8 else ("u", watch))
        elif r < 0.90:
            ops.append(("m", rng.choice(tgts + srcs)))
        elif r < 0.94:
            ops.append(("ood",))
        elif r < 0.97:
            ops.append(("targets",))
        else:
            ops.append(("sources",))
    ops.append(("ifc", list(tgts), False))
    ops.append(("ood",))
    ops.append(("targets",))
    ops.append(("sources",))
    return Case(names, rules, ops)
