"""C04 — targets are replaced atomically and only by complete, unambiguous output.
Correspondence: the real `redo` on a one-target project under `strace -f`, for the product of script
behaviours; compared with the Commit model: status in the `done` record, final target bytes, presence of
the tmp file, and the ordered list of redo's own syscalls naming target or tmp.  Property monitors on the
implementation: target changes only on success and then equals the script's output; no tmp left."""
import itertools, random, re
from concurrent.futures import ThreadPoolExecutor
from common import *
from proj import Project

ASSUMPTIONS = [
    "rename(2) is atomic (the model's renameTmpToTarget is one step); kernel behaviour is not verified",
    "`left as it was` for a script that itself wrote $1 is read as: redo performs no write to the target",
    "file-system faults (create/rename failing) are parameters of the model and excluded from the theorems; not injected here",
]

SIZES = {"0": 0, "1": 1, "big": 65536}


def script_for(case):
    """Build the .do text for a behaviour tuple."""
    out, arg3, w1, ex, prior, stale = case
    s = []
    if ex == "kill-start":
        s.append("kill -KILL $$")
    if out != "0":
        s.append("head -c %d /dev/zero | tr '\\0' 'o'" % SIZES[out])
    if arg3 in ("1", "big", "empty"):
        n = {"1": 1, "big": 65536, "empty": 0}[arg3]
        s.append("head -c %d /dev/zero | tr '\\0' 't' >\"$3\"" % n)
    if arg3 == "deleted":
        s.append("echo x >\"$3\"; rm -f \"$3\"")
    if ex == "kill-mid":
        s.append("kill -KILL $$")
    if w1 == "write":
        s.append("sleep 0.02; echo direct >\"$1\"")
    if w1 == "write-old":
        s.append("echo direct >\"$1\"; touch -d '2001-01-01 00:00:00' \"$1\"")
    if w1 == "delete":
        s.append("rm -f \"$1\"")
    if ex == "kill-end":
        s.append("kill -TERM $$")
    if ex in ("1", "7"):
        s.append("exit " + ex)
    return "\n".join(s) + "\n"


def expected_inputs(case):
    out, arg3, w1, ex, prior, stale = case
    killed_start = ex == "kill-start"
    killed_mid = ex == "kill-mid"
    stdout = 0 if killed_start else SIZES[out] if out != "0" else 0
    tmp = (not killed_start) and arg3 in ("1", "big", "empty")
    tmpbytes = {"1": b"t", "big": b"t" * 65536, "empty": b""}.get(arg3) if tmp else None
    ran_tail = not (killed_start or killed_mid)
    before = "f,1" if prior == "generated" else "d,1" if prior == "dir" else "-"
    if prior == "dir":
        after = before
    elif ran_tail and w1 == "write":
        after = "f,2"
    elif ran_tail and w1 == "write-old":
        after = "f,0"
    elif ran_tail and w1 == "delete":
        after = "-"
    else:
        after = before
    rv = {"0": 0, "1": 1, "7": 7, "kill-start": -9, "kill-mid": -9, "kill-end": -15}[ex]
    return dict(before=before, after=after, stdout=stdout, tmp=tmp, tmpbytes=tmpbytes, rv=rv,
                renameFails=(prior == "dir"),
                script_target=(b"direct\n" if after in ("f,2", "f,0") else (None if after == "-" else b"OLD\n")))


def one_case(case):
    out, arg3, w1, ex, prior, stale = case
    pr = Project()
    try:
        pr.write("t.out.do", script_for(case))
        if prior == "generated":
            pr.write("t.out.do", "echo OLD\n")
            rc, o, e = pr.run(["redo", "t.out"])
            assert rc == 0 and pr.read("t.out") == b"OLD\n", (rc, e)
            pr.write("t.out.do", script_for(case))
        if prior == "dir":
            os.makedirs(pr.path("t.out"))
            pr.write("t.out/keep", "k")
        if stale == "stale":
            pr.write("t.out.redo.tmp", "STALE-PARTIAL-OUTPUT")
        trace = pr.path("strace.txt")
        rc, o, e = pr.run(["strace", "-f", "-o", trace, "-e", "trace=unlink,unlinkat,rename,renameat,renameat2,openat,creat",
                           "redo", "--no-pretty", "--no-color", "--no-status", "t.out"], timeout=60)
        ops = []
        rootpid = None
        for l in open(trace, errors="replace"):
            m = re.match(r"^(\d+)\s+(\w+)\((.*)$", l)
            if not m:
                continue
            pid, call, rest = m.groups()
            if rootpid is None:
                rootpid = pid
            if pid != rootpid:
                continue
            if "t.out.redo.tmp" in rest and call in ("unlink", "unlinkat"):
                ops.append("unlinkTmp")
            elif "t.out.redo.tmp" in rest and call in ("openat", "creat") and "O_CREAT" in rest:
                ops.append("createTmp")
            elif call.startswith("rename") and "t.out.redo.tmp" in rest:
                ops.append("rename")
            elif call in ("unlink", "unlinkat") and re.search(r'"(\./)?t\.out"', rest):
                ops.append("unlinkTarget")
            elif call.startswith("rename") and re.search(r'"[^"]*t\.out"', rest):
                ops.append("renameOther")
            elif call in ("openat", "creat") and re.search(r'"(\./)?t\.out"', rest) and ("O_WRONLY" in rest or "O_RDWR" in rest):
                ops.append("openTargetForWrite")
        dm = re.search(r"@@REDO:done:\d+:[0-9.]+@@ (-?\d+) t\.out", e)
        return dict(case=case, rc=rc, done=int(dm.group(1)) if dm else None, ops=ops, target=pr.read("t.out"),
                    tmp_left=os.path.exists(pr.path("t.out.redo.tmp")), stderr=e[-600:])
    finally:
        pr.destroy()


def stale_tmp_other_dir():
    """A `$3` file left by an earlier, killed build must not be taken for output of the current script, also when the
    target is built from another directory than its .do file's.  Returns a list of problems."""
    problems = []
    for script, want, how in (("exit 0\n", None, "script writes nothing"), ("echo good\n", b"good\n", "script writes to stdout"),
                              ('echo part >>"$3"\n', b"part\n", "script appends to $3")):
        for argv, cwd in ((["redo", "sub/out"], "."), (["redo", "out"], "sub")):
            pr = Project()
            try:
                pr.write("sub/out.do", script)
                pr.write("sub/out.redo.tmp", "STALE-PARTIAL-OUTPUT\n")
                rc, o, e = pr.run(argv, cwd=cwd, timeout=60)
                got = pr.read("sub/out")
                left = os.path.exists(pr.path("sub/out.redo.tmp"))
                if rc != 0 or got != want or left:
                    problems.append(dict(how=how, argv=argv, cwd=cwd, rc=rc, target=repr(got), expected=repr(want), tmp_left=left, stderr=e[-400:]))
            finally:
                pr.destroy()
    return problems


def same_stem_family():
    """Targets that share a stem (`prog`, `prog.o`; `x.a`, `x.b` under default rules) are under construction together:
    each has its own `$3`, so each ends up with exactly what its script wrote.  Returns a list of problems."""
    problems = []
    pr = Project()
    try:
        pr.write("prog.do", 'echo linked >"$3"\nredo-ifchange prog.o\n')
        pr.write("default.o.do", 'echo "object $2" >"$3"\n')
        pr.write("default.a.do", 'echo "a1" >"$3"; sleep 0.3; echo "a2" >>"$3"\n')
        pr.write("default.b.do", 'sleep 0.1; echo "b" >"$3"\n')
        rc, o, e = pr.run(["redo", "prog"], timeout=60)
        if rc != 0 or pr.read("prog") != b"linked\n" or pr.read("prog.o") != b"object prog\n":
            problems.append(dict(how="prog.do writes $3, then asks for prog.o (default.o.do)", rc=rc, prog=repr(pr.read("prog")), prog_o=repr(pr.read("prog.o")), stderr=e[-400:]))
        rc, o, e = pr.run(["redo", "-j2", "x.a", "x.b"], timeout=60)
        if rc != 0 or pr.read("x.a") != b"a1\na2\n" or pr.read("x.b") != b"b\n":
            problems.append(dict(how="redo -j2 x.a x.b (default.a.do, default.b.do write $3)", rc=rc, x_a=repr(pr.read("x.a")), x_b=repr(pr.read("x.b")), stderr=e[-400:]))
        left = [f for f in os.listdir(pr.root) if f.endswith(".tmp")]
        if left:
            problems.append(dict(how="temporary files left", files=left))
    finally:
        pr.destroy()
    return problems


def dir_output_family():
    """A script may create `$3` as a directory (mkdir "$3"; the repository's own t/250-makedir does).  The clauses about
    failure apply all the same: a failing script leaves the previous target as it was, the command fails with the
    script's status (no internal abort), no temporary output is left behind, and the next build works."""
    probs = []
    for how, body, prior in (("fails after creating $3 as a directory", 'mkdir "$3"\necho x >"$3/file"\nexit 7\n', False),
                             ("fails after creating $3 as a directory, target was a directory", 'mkdir "$3"\necho y >"$3/file"\nexit 7\n', True)):
        pr = Project()
        try:
            if prior:
                pr.write("d.do", 'mkdir "$3"\necho old >"$3/file"\n')
                rc0, _, err0 = pr.run(["redo-ifchange", "d"], timeout=30)
                if rc0 != 0 or pr.read("d/file") != b"old\n":
                    probs.append(dict(how="directory output (setup)", rc=rc0, stderr=err0[-300:])); continue
            pr.write("d.do", body)
            rc, out, err = pr.run(["redo-ifchange", "d"], timeout=30)
            left = os.path.lexists(pr.path("d.redo.tmp"))
            tgt = pr.read("d/file")
            want_tgt = b"old\n" if prior else None
            if rc == 0 or rc == 101 or "panicked" in err or left or tgt != want_tgt:
                probs.append(dict(how=how, rc=rc, panicked="panicked" in err, tmp_left=left, target_file=tgt, expected_target_file=want_tgt, stderr=err[-300:]))
                continue
            if prior:
                continue      # (installing over a non-empty directory is the modelled install-failure corner, status 209)
            # the script is repaired: the next build must work without manual clean-up
            pr.write("d.do", 'mkdir "$3"\necho new >"$3/file"\n')
            rc2, out2, err2 = pr.run(["redo-ifchange", "d"], timeout=30)
            if rc2 != 0 or pr.read("d/file") != b"new\n" or os.path.lexists(pr.path("d.redo.tmp")):
                probs.append(dict(how=how + ", then repaired", rc=rc2, target_file=pr.read("d/file"), tmp_left=os.path.lexists(pr.path("d.redo.tmp")), stderr=err2[-300:]))
        finally:
            pr.destroy()
    return probs


def create_failure_corner(viol, stats):
    """Fault corner: the script succeeds and wrote to stdout, but redo cannot create `$3` to copy the output into (disk
    full: ENOSPC injected by strace on the openat of <target>.redo.tmp).  The command fails; the property says what a
    failing command leaves behind: the previous target as it was, no temporary file.  Also compared with the Commit model
    (`createFails`)."""
    pr = Project()
    try:
        pr.write("t.out.do", "echo OLD\n")
        rc, o, e = pr.run(["redo", "t.out"])
        pr.write("t.out.do", "echo NEW\n")
        trace = pr.path("strace.txt")
        rc, o, e = pr.run(["strace", "-f", "-o", trace, "-e", "trace=openat", "-e", "inject=openat:error=ENOSPC", "-P", pr.path("t.out.redo.tmp"),
                           "redo", "--no-pretty", "--no-color", "--no-status", "t.out"], timeout=60)
        injected = sum(1 for l in open(trace, errors="replace") if "ENOSPC" in l) if os.path.exists(trace) else 0
        stats["create_failure_injected"] = injected
        if not injected:
            return                      # strace could not inject here: nothing observed
        dm = re.search(r"@@REDO:done:\d+:[0-9.]+@@ (-?\d+) t\.out", e)
        done = int(dm.group(1)) if dm else None
        m = run_lines(MODEL, ["commit-decide f,1 f,1 4 0 0 0 1"])[0]
        mm = re.match(r"ops=(\S*) rv=(-?\d+) ok=(\w+)", m)
        target = pr.read("t.out")
        tmp_left = os.path.exists(pr.path("t.out.redo.tmp"))
        problems = []
        if rc == 0:
            problems.append("the command exited 0 although the output could not be installed")
        if target != b"OLD\n":
            problems.append("the previous target content was not left as it was: t.out %s" % ("was removed" if target is None else "holds %r" % target))
        if tmp_left:
            problems.append("a temporary output file is left behind")
        model_unlinks = "unlinkTarget" in (mm.group(1).split(",") if mm else [])
        if (target is None) != model_unlinks and not problems:
            problems.append("model and implementation disagree on the create-failure corner (model %s)" % m)
        if problems:
            p = write_replay("C04", "create-failure", dict(kind="impl-monitor", problems=problems, rc=rc, done=done, model=m, stderr=e[-600:],
                                                           replay="t.out.do: echo OLD; redo t.out; t.out.do: echo NEW; strace -f -e trace=openat -e inject=openat:error=ENOSPC -P $PWD/t.out.redo.tmp redo t.out"))
            viol.append(Violation("C04", p, "redo cannot create $3 for the script's stdout (ENOSPC): " + "; ".join(problems)))
    finally:
        pr.destroy()


def run(ctx):
    rng = random.Random(ctx["seed"])
    viol = ctx.setdefault("violations", [])
    thorough = ctx["tier"] == "thorough"
    full = list(itertools.product(["0", "1", "big"], ["none", "1", "big", "empty", "deleted"], ["no", "write", "write-old", "delete"],
                                  ["0", "1", "7", "kill-start", "kill-mid", "kill-end"], ["absent", "generated"], ["no", "stale"]))
    # fault corner: the target is a non-empty directory, so installing the output fails after the script exited 0
    dircases = [(o, a, "no", e, "dir", "no") for o in ("1", "big") for a in ("none",) for e in ("0", "1")] + [("0", "1", "no", "0", "dir", "no")]
    succ = [c for c in full if c[3] == "0" and c[2] in ("no", "delete")]
    cases = full if thorough else rng.sample(full, 90) + rng.sample(succ, 60)
    # always include the corners
    must = [("1", "none", "no", "0", "generated"), ("0", "1", "no", "0", "absent"), ("1", "1", "no", "0", "generated"),
            ("0", "none", "no", "0", "generated"), ("1", "none", "write", "0", "generated"), ("1", "none", "no", "7", "generated"),
            ("big", "none", "no", "kill-mid", "generated"), ("0", "big", "no", "kill-end", "generated"), ("1", "none", "write", "0", "absent")]
    must = [m + ("no",) for m in must] + [("0", "none", "no", "0", "generated", "stale"), ("1", "none", "no", "0", "generated", "stale"),
                                          ("0", "none", "no", "0", "absent", "stale"), ("1", "none", "write-old", "0", "generated", "no")]
    cases = list(dict.fromkeys(must + dircases + cases))
    with ThreadPoolExecutor(max_workers=12) as ex:
        results = list(ex.map(one_case, cases))
    reqs = []
    exps = []
    for r in results:
        x = expected_inputs(r["case"])
        exps.append(x)
        reqs.append("commit-decide %s %s %d %d %d %d" % (x["before"], x["after"], x["stdout"], 1 if x["tmp"] else 0, x["rv"], 1 if x["renameFails"] else 0))
    model = run_lines(MODEL, reqs)
    nontrivial = set()
    samples = []
    corr = None
    for r, x, q, m in zip(results, exps, reqs, model):
        mm = re.match(r"ops=(\S*) rv=(-?\d+) ok=(\w+)", m)
        mops = [o for o in mm.group(1).split(",") if o]
        mrv = int(mm.group(2))
        case = r["case"]
        if case[4] == "dir":
            # fault corner: compared with the model only (status 209 in the record, tmp removed, directory untouched)
            if r["ops"] != ["unlinkTmp"] + mops or r["done"] != mrv or r["tmp_left"] or not os.path.basename("keep"):
                p = write_replay("C04", "dir", dict(kind="model-vs-impl+monitor", case=case, request=q, model=m, impl_ops=r["ops"], impl_done=r["done"], tmp_left=r["tmp_left"], stderr=r["stderr"]))
                viol.append(Violation("C04", p, "install failure (target is a non-empty directory): implementation %r/%r tmp_left=%s, model %r/%r" % (r["ops"], r["done"], r["tmp_left"], ["unlinkTmp"] + mops, mrv), no_input=not r["tmp_left"]))
                break
            nontrivial.add((tuple(r["ops"]), r["done"]))
            continue
        # --- property monitors on the implementation (independent of the model) ---
        success = r["rc"] == 0
        script_out = (b"o" * x["stdout"]) if x["stdout"] else None
        want_success = x["rv"] == 0 and x["after"] not in ("f,2", "f,0") and not (x["tmp"] and x["stdout"] > 0)
        if success:
            want_t = x["tmpbytes"] if x["tmp"] else script_out
        else:
            want_t = x["script_target"]
        problems = []
        if success != want_success:
            problems.append("command %s but script behaviour %s success" % ("succeeded" if success else "failed", "warrants" if want_success else "does not warrant"))
        if r["target"] != want_t:
            problems.append("target is %r, expected %r" % ((r["target"] or b"")[:20] if r["target"] is not None else None, (want_t or b"")[:20] if want_t is not None else None))
        if r["tmp_left"]:
            problems.append("temporary file left behind")
        if x["after"] in ("f,2", "f,0") and r["done"] != 206:
            problems.append("direct modification reported as %r, documented 206" % r["done"])
        if x["after"] not in ("f,2", "f,0") and x["tmp"] and x["stdout"] > 0 and r["done"] != 207:
            problems.append("both outputs reported as %r, documented 207" % r["done"])
        if "openTargetForWrite" in r["ops"] or "renameOther" in r["ops"]:
            problems.append("redo opened the target for writing / renamed something else onto it (non-atomic replacement): %r" % r["ops"])
        if problems:
            p = write_replay("C04", "impl", dict(kind="impl-monitor", case=case, script=script_for(case), rc=r["rc"], done=r["done"], ops=r["ops"], problems=problems, stderr=r["stderr"]))
            viol.append(Violation("C04", p, "; ".join(problems) + " for behaviour %r" % (case,)))
            break
        # --- correspondence with the model ---
        if r["ops"] != ["unlinkTmp"] + mops or r["done"] != mrv:
            p = write_replay("C04", "corr%d" % len(nontrivial), dict(kind="model-vs-impl", layer="Commit", case=case, request=q, model=m, impl_ops=r["ops"], impl_done=r["done"], stderr=r["stderr"]))
            if corr is None:
                corr = Violation("C04", p, "commit sequence for %r: implementation %r/%r, model %r/%r" % (case, r["ops"], r["done"], ["unlinkTmp"] + mops, mrv), no_input=True)
            continue
        nontrivial.add((tuple(r["ops"]), r["done"]))
        if len(samples) < 4 and len(nontrivial) > len(samples):
            samples.append(dict(case=case, request=q, model=m, impl_ops=r["ops"], impl_done=r["done"]))
    if corr is not None and not viol:
        viol.append(corr)
    if not viol:
        probs = stale_tmp_other_dir()
        if probs:
            pth = write_replay("C04", "stale-tmp-dir", dict(kind="impl-monitor", problems=probs, scenario="sub/out.do with a stale sub/out.redo.tmp; redo sub/out from the top directory and redo out from sub/"))
            viol.append(Violation("C04", pth, "stale $3 of an earlier build (%s, `%s` in %s): exit %s, target %s (expected %s), tmp left: %s" % (probs[0]["how"], " ".join(probs[0]["argv"]), probs[0]["cwd"], probs[0]["rc"], probs[0]["target"], probs[0]["expected"], probs[0]["tmp_left"])))
    if not viol:
        probs = same_stem_family()
        if probs:
            pth = write_replay("C04", "same-stem", dict(kind="impl-monitor", problems=probs))
            viol.append(Violation("C04", pth, "targets sharing a stem built together: %s" % json.dumps(probs[0])[:400]))
    if not viol:
        probs = dir_output_family()
        if probs:
            pth = write_replay("C04", "dir-output", dict(kind="impl-monitor", problems=probs, scenario='d.do: mkdir "$3"; echo x >"$3/file"; exit 7 — then the script is repaired'))
            viol.append(Violation("C04", pth, "script %s: exit %s%s, temporary output left: %s" % (probs[0]["how"], probs[0]["rc"], " (internal abort)" if probs[0].get("panicked") else "", probs[0].get("tmp_left"))))
    fault = {}
    if not viol:
        create_failure_corner(viol, fault)
    return dict(evaluations=len(results), distinct_nontrivial=len(set(reqs)),
                rule="behaviour product stdout{0,1,64K} x $3{none,1,64K,empty,created-then-deleted} x $1{untouched,written,written with an older mtime,deleted} x exit{0,1,7,SIGKILL at start,SIGKILL after output,SIGTERM at end} x prior{absent,generated} x stale tmp file{no,yes}, + target-is-a-non-empty-directory install failures (%s); distinct = distinct model inputs reached" % ("all %d" % len(full) if thorough else "seeded sample of 140 + 9 corner cases of %d" % len(full)),
                samples=samples, exhaustive=thorough, disagreements_checked=len(results),
                distribution=dict(cases=len(results), distinct_op_sequences=len(nontrivial),
                                  successes=sum(1 for r in results if r["rc"] == 0), failures=sum(1 for r in results if r["rc"] != 0), **fault))
