#!/bin/bash
# Behaviour-preserving changes against EVERY quick check: any VIOLATION line is a false alarm of the machinery.
# usage (from a snapshot):  vp run --with-repo -- tools/neutral_run.sh <dir with patch*.diff> [more dirs...]
set -u
cd "$(dirname "$0")/.."
REPO_COPY="${VP_RUN_REPO:?need a scratch repository copy}"
export VERIF_REPO="$REPO_COPY"
./check --setup >/dev/null 2>&1
ALL="${NEUTRAL_CHECKS:-C01 C02 C03 C04 C05 C06 C07 C08 C09 C10 C11 C12 C13 C14 C15 C16 C17 C18}"
BASE=$(git -C "$REPO_COPY" rev-parse HEAD)
for d in "$@"; do
  for p in "$d"/patch*.diff; do
    [ -f "$p" ] || continue
    git -C "$REPO_COPY" reset -q --hard "$BASE"; git -C "$REPO_COPY" clean -fdq
    if ! git -C "$REPO_COPY" apply "$p" 2>/dev/null; then
      if ! git -C "$REPO_COPY" apply -3 "$p" >/dev/null 2>&1; then git -C "$REPO_COPY" reset -q --hard "$BASE"; echo "NEUTRAL $p DOES-NOT-APPLY"; continue; fi
      git -C "$REPO_COPY" reset -q
    fi
    for id in $ALL; do
      R=$(./check $id --tier quick 2>/dev/null | grep -E "^VIOLATION" | head -1 | cut -c1-400)
      [ -n "$R" ] && echo "NEUTRAL $p FALSE-ALARM $R"
    done
    echo "NEUTRAL $p done"
  done
done
git -C "$REPO_COPY" reset -q --hard "$BASE"
echo "NEUTRAL-RUN-DONE"
