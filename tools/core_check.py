"""Correspondence for the plain-target core (lean/RedoModel/Core): the model whose soundness invariant is proven
completely (Props/C01: no_stale_history …) is run on the same plain histories as the real binaries and as the
full engine model.  Plain = sources, targets with a specific .do that runs one `redo-ifchange d…` and writes a
function of what it read; the user edits/removes sources and removes targets between `redo-ifchange` commands.
Compared after every operation: exit-status class, the tokens in every non-.do file, and per file the abstracted
record (generated flag, checked/changed/failed run, stamp class)."""
import random
from concurrent.futures import ThreadPoolExecutor
from common import *
import depsgen
import deps_check


def gen_plain(rng):
    nsrc = rng.randint(1, 3)
    ntgt = rng.randint(2, 6)
    names = {0: "//ALWAYS"}
    fid = 1
    srcs, tgts = [], []
    for _ in range(nsrc):
        names[fid] = "s%d" % fid
        srcs.append(fid)
        fid += 1
    for _ in range(ntgt):
        names[fid] = "t%d" % fid
        tgts.append(fid)
        fid += 1
    rules, graph, ops = {}, {}, []
    v = 10
    for s in srcs:
        if rng.random() < 0.85:
            ops.append(("w", s, 0))
    for i, t in enumerate(tgts):
        lower = srcs + tgts[:i]
        deps = [d for d in lower if rng.random() < 0.55] or [rng.choice(lower)]
        rng.shuffle(deps)
        tag = rng.randint(1, 9)
        names[fid] = names[t] + ".do"
        rules[t] = [fid]
        graph[t] = (tag, deps)
        v += 1
        ops.append(("p", v, dict(ifchange=[deps], reads=list(deps), tag=tag, outMode=rng.choice([0, 1]))))
        ops.append(("w", fid, v))
        fid += 1
    ver = {s: 0 for s in srcs}
    for _ in range(rng.randint(5, 12)):
        r = rng.random()
        if r < 0.4:
            ops.append(("ifc", rng.sample(tgts, rng.randint(1, min(3, len(tgts)))) + ([rng.choice(srcs)] if rng.random() < 0.1 else []), False))
        elif r < 0.65:
            s = rng.choice(srcs)
            ver[s] += 1
            ops.append(("w", s, ver[s]))
        elif r < 0.85:
            ops.append(("r", rng.choice(tgts)))
        elif r < 0.93:
            ops.append(("r", rng.choice(srcs)))
        else:
            s = rng.choice(srcs)              # a removed source comes back
            ver[s] += 1
            ops.append(("w", s, ver[s]))
    ops.append(("ifc", list(tgts), False))
    return depsgen.Case(names, rules, ops), graph


def core_request(case, graph):
    g = ";".join("%d:%d:%s" % (t, tag, "_".join(map(str, deps)) or "-") for t, (tag, deps) in sorted(graph.items())) or "-"
    ops = []
    for o in case.ops:
        if o[0] == "w" and not case.names[o[1]].endswith(".do"):
            ops.append("w.%d.%d" % (o[1], o[2]))
        elif o[0] == "r":
            ops.append("r.%d" % o[1])
        elif o[0] == "ifc":
            ops.append("b." + "_".join(map(str, o[1])))
        else:
            ops.append(None)      # `p` and the writing of a .do file: not an operation of the core
    return "core-run %d %s %s" % (case.n, g, ";".join(x for x in ops if x)), [x is not None for x in ops]


def abstract_real(case, line):
    """Project a snapshot of the real system (or of the full model) onto what the core talks about."""
    p = deps_check.parse_line(line)
    dofile = lambda f: case.names.get(f, "").endswith(".do") or f == 0
    fs = " ".join("%d=%s" % (f, t) for f, t in sorted(p["fs"].items()) if not dofile(f))
    # `checked` marks are left out: which clean files a dirtiness walk happens to visit before it meets the first dirty
    # one depends on the order of the walk (the real tool and the full model follow the row order of the Deps table,
    # the core the declared order); the marks are a cache and the full-model comparison checks them exactly
    db = " ".join("%d:%s:%s:%s:%s" % (f, "g" if r["gen"] else "-", r["changed"], r["failed"], r["stamp"])
                  for f, r in sorted(p["db"].items()) if not dofile(f)
                  # a row that only exists (declared as a dependency, never examined) carries no information
                  and not (not r["gen"] and r["checked"] == r["changed"] == r["failed"] == "-" and r["stamp"] == "none"))
    rv = "" if p["rv"] is None else "rv=%d " % (0 if p["rv"] == 0 else 1)
    return "%sfs[%s] db[%s]" % (rv, fs, db)


def run(ctx, prop, ncases):
    """Returns (coverage dict, list of Violation)."""
    rng = random.Random(ctx["seed"] * 104729 + 17)
    n = ncases * (10 if ctx["tier"] == "thorough" else 1)
    cases = [gen_plain(rng) for _ in range(n)]
    reqs = [core_request(c, g) for c, g in cases]
    core = [[x.strip() for x in l.split(" | ")] for l in run_lines(MODEL, [r[0] for r in reqs])]
    defects = deps_check.current_defects()
    full = [[x.strip() for x in l.split(" | ")] for l in run_lines(MODEL, [c.request(defects) for c, _ in cases])]
    with ThreadPoolExecutor(max_workers=14) as ex:
        real = list(ex.map(depsgen.run_real, [c for c, _ in cases]))
    viol = []
    stats = dict(cases=len(cases), ops=0, builds=0, failed_builds=0, removed_targets=0, source_edits=0)
    for ci, ((case, graph), (req, mask), co, fu, re_) in enumerate(zip(cases, reqs, core, full, real)):
        keep = [i for i, m in enumerate(mask) if m]
        a_real = [abstract_real(case, re_[i]) for i in keep]
        a_full = [abstract_real(case, fu[i]) for i in keep]
        stats["ops"] += len(keep)
        for i in keep:
            o = case.ops[i]
            if o[0] == "ifc":
                stats["builds"] += 1
                if " rv=0 " not in " " + re_[i]:
                    stats["failed_builds"] += 1
            elif o[0] == "r" and o[1] in graph:
                stats["removed_targets"] += 1
            elif o[0] == "w":
                stats["source_edits"] += 1
        for which, other in (("implementation", a_real), ("full engine model", a_full)):
            if co != other:
                j = next((j for j, (a, b) in enumerate(zip(co, other)) if a != b), 0)
                p = write_replay(prop, "core-%d" % ci, dict(kind="core-model-vs-" + which.split()[0], layer="Core", case=case.to_json(), names=case.names,
                                                           graph={str(k): v for k, v in graph.items()}, request=req, op=case.ops[keep[j]] if j < len(keep) else None,
                                                           core=co[j] if j < len(co) else None, other=other[j] if j < len(other) else None))
                # is it a failing input of C01 on the implementation?  (exit 0 with stale content)
                mon = [m for m in deps_check.monitors(case, re_, {"C01"}) if m[0] == "C01"]
                viol.append(Violation(prop, p, "the proven core model and the %s disagree on a plain history (op %d)%s" % (which, j, "; " + mon[0][1] if mon else ""), no_input=not mon))
                break
        if viol:
            break
    return dict(core_cases=stats["cases"], core_ops=stats["ops"], core_distribution=stats,
                core_rule="plain histories (1-3 sources, 2-6 ranked targets with specific .do files; ops: edit source, remove source, remove target, redo-ifchange of 1-3 names); the core model, the full engine model and the real binaries compared after every op on status class, file tokens and abstracted records"), viol
