"""C07 — each target is built at most once per run; the outcome does not depend on the schedule.
Correspondence: the job events of one invocation are replayed through the Lean acceptor `Once.step`.
Implementation monitors: the same generated project is built in fresh copies serially and at -j2..8, shuffled
and not, with script durations drawn from the PRNG; execution counts, final contents, exit-status class and the
abstracted dependency records must equal those of the serial build."""
import random, re, shutil, sqlite3
from common import *
from proj import Project
import sched

ASSUMPTIONS = [
    "no other invocation is active on the project (the property's own premise)",
    "with failing scripts only the zero/non-zero class of the status and at-most-once are compared (which targets are attempted legitimately depends on order)",
]


def db_abstract(pr):
    p = pr.path(".redo/db.sqlite3")
    if not os.path.exists(p):
        return None
    db = sqlite3.connect("file:%s?mode=ro" % p, uri=True, timeout=30)
    names = dict(db.execute("select rowid,name from Files").fetchall())
    files = sorted((n, bool(g), bool(o), f is not None, bool(c)) for n, g, o, f, c in db.execute("select name,is_generated,is_override,failed_runid,csum from Files") if not n.startswith(".."))
    deps = sorted((names.get(t), names.get(s), m) for t, s, m, d in db.execute("select target,source,mode,delete_me from Deps") if not d)
    db.close()
    return files, deps


def once_events(trace, toppid, top_is_redo):
    ev = []
    for pid, ts, name, a in trace:
        if name == "job.script":
            ev.append("sc,%s,%d" % (a[0], 1 if (top_is_redo and pid == toppid) else 0))
        elif name == "job.record.end":
            ev.append("re,%s" % a[0])
    return ev


def par_replay(trace, deps_by_name, fid_of, failing=(), keep_going=False, tops=("all",)):
    """Replay the job events of one invocation through the Lean acceptor ParF.step (schedule independence with failing
    scripts, C07b/C07c): a script is started only for an idle target and only because the top level or the command its
    requester is executing named it; a `redo-ifchange` inside the script of t returns 0 only when everything it named is
    settled without failure (built and recorded in this run, or found clean), and non-zero only when something it named
    has failed (with --keep-going: only when everything it named has an answer); a script whose command returned non-zero
    ends failed; a failed target is never run again.  Returns (answer, events, graph string)."""
    shell_of = {}             # pid of a script's shell -> fid of the target it builds (hook job.child)
    target_of = {}            # pid of a redo process -> fid of the script that started it directly (None: top level, or a
                              # helper of the out-of-band rebuild, which is not a command of any script)
    settled = set()
    ev = []
    for pid, ts, name, a in trace:
        if name == "job.child" and len(a) >= 2 and a[1] == "script":
            shell_of[pid] = int(a[0])
        elif name == "run.begin":
            ppid = int(a[-1]) if a and a[-1].isdigit() else -1
            target_of[pid] = shell_of.get(ppid)
        elif name == "job.script":
            byf = target_of.get(pid)
            ev.append("st,%s,%s" % (a[0], "-" if byf is None else byf))
        elif name == "job.decide" and len(a) >= 2 and a[1] == "clean":
            if int(a[0]) not in settled:
                ev.append("cl,%s" % a[0]); settled.add(int(a[0]))
        elif name == "job.record.end" and len(a) >= 2:
            ev.append(("fi,%s" if a[1] == "0" else "fl,%s") % a[0]); settled.add(int(a[0]))
        elif name == "run.end" and a:
            t = target_of.get(pid)
            if t is not None:
                ev.append("rt,%d,%d" % (t, 1 if a[0] == "ok" else 0))
    gs = []
    for nm, deps in sorted(deps_by_name.items()):
        if nm not in fid_of:
            continue
        ds = [str(fid_of[d]) for d in deps if d in fid_of]
        gs.append("%d:%d:%s:%s:%d" % (fid_of[nm], fid_of[nm], "_".join(ds) or "-", "_".join(ds) or "-", 1 if nm in failing else 0))
    graph = ";".join(gs) or "-"
    tp = "_".join(str(fid_of[t]) for t in tops if t in fid_of) or "-"
    ans = run_lines(MODEL, ["parf-replay %s %d %s %s" % (graph, 1 if keep_going else 0, tp, ";".join(ev) if ev else "-")])[0]
    return ans, ev, graph


def fids_of(pr):
    p = pr.path(".redo/db.sqlite3")
    if not os.path.exists(p):
        return {}
    db = sqlite3.connect("file:%s?mode=ro" % p, uri=True, timeout=30)
    try:
        return dict((n, i) for i, n in db.execute("select rowid,name from Files"))
    finally:
        db.close()


def _outcome(pr, names):
    return {n: pr.read(n) for n in names}


def late_declaration_family(viol, stats):
    """A script that does its slow work BEFORE declaring its dependencies (the `cc -MD …; redo-ifchange $(cat deps)` idiom):
    while it runs, its old dependency rows are only flagged, not yet re-declared.  A second branch that reaches the target
    through an intermediate one during that window must still come out as in the serial build: all -> a -> x -> src and
    all -> b -> y -> x, first build, edit src, two more builds, at -j1 and at -j4."""
    res = {}
    for j in ("-j1", "-j4"):
        pr = Project()
        try:
            pr.write("src", "version-one\n")
            pr.write("x.do", "sleep 0.8\nredo-ifchange src\ncat src\n")
            pr.write("y.do", "redo-ifchange x\nsed 's/^/y:/' x\n")
            pr.write("a.do", "redo-ifchange x\nsed 's/^/a:/' x\n")
            pr.write("b.do", "sleep 0.3\nredo-ifchange y\nsed 's/^/b:/' y\n")
            pr.write("all.do", "redo-ifchange a b\n")
            rcs = []
            rcs.append(sched.run_cmds(pr, [["redo", j, "all"]], timeout=60)[0].rc)
            pr.write("src", "version-two-longer\n")
            rcs.append(sched.run_cmds(pr, [["redo", j, "all"]], timeout=60)[0].rc)
            rcs.append(sched.run_cmds(pr, [["redo", j, "all"]], timeout=60)[0].rc)
            stats["builds"] += 3
            res[j] = (rcs, _outcome(pr, ["x", "y", "a", "b"]), db_abstract(pr))
        finally:
            pr.destroy()
    if res["-j1"][:2] != res["-j4"][:2]:
        bad = [k for k in res["-j1"][1] if res["-j1"][1][k] != res["-j4"][1][k]]
        p = write_replay("C07", "late-declaration", dict(kind="impl-monitor", scenario="x.do: sleep; redo-ifchange src; cat src.  a -> x, b -> y -> x (b starts a little later).  build, edit src, build, build",
                                                          serial=dict(rcs=res["-j1"][0], contents={k: repr(v) for k, v in res["-j1"][1].items()}),
                                                          parallel=dict(rcs=res["-j4"][0], contents={k: repr(v) for k, v in res["-j4"][1].items()})))
        viol.append(Violation("C07", p, "a target that declares its dependencies after its slow work, requested from two branches: redo -j4 leaves %s different from the serial build (statuses %s vs %s)" % (bad, res["-j4"][0], res["-j1"][0])))
    stats["directed"] = stats.get("directed", 0) + 1


def second_look_family(viol, stats):
    """A second branch of the same `redo -j2` looks at a checksummed target T while T's script is under way — before it has
    called redo-stamp, and after (redo-stamp commits its marks at once, the file is installed and recorded only when the
    script ends) — with T's old file still in place or removed by the user, T's source changed or not (a removed T
    then comes back with the same checksum).  W.do waits for the
    phase marker and then asks for B, whose only dependency is T.  In every case: T's script runs at most once in the
    command, nothing fails, and A, B hold what a serial build gives."""
    res = []
    for phase in ("before-stamp", "after-stamp"):
        for state in ("in-place", "removed", "removed, source unchanged"):
            pr = Project()
            try:
                pr.write("src", "hello\n")
                pr.write("T.do", 'echo run >>"$PWD/T.runs"\nredo-ifchange src\n: >"$PWD/T.started"\nsleep ${T_HEAD:-0}\ncat src >$3\nredo-stamp <$3\n: >"$PWD/T.stamped"\nsleep ${T_TAIL:-0}\n')
                pr.write("A.do", "redo-ifchange T\nsed 's/^/a:/' T >$3\n")
                pr.write("B.do", "redo-ifchange T\nsed 's/^/b:/' T >$3\n")
                marker = "T.started" if phase == "before-stamp" else "T.stamped"
                pr.write("W.do", 'n=0\nwhile [ ! -e %s ] && [ $n -lt 300 ]; do sleep 0.05; n=$((n+1)); done\nsleep 0.2\nredo-ifchange B\necho w >$3\n' % marker)
                r1 = sched.run_cmds(pr, [["redo", "A", "B"]], timeout=60)[0]
                runs1 = (pr.read("T.runs") or b"").count(b"run")
                # T has to run again: its source changes; its old file stays, or the user removes it
                text = b"hello\n" if state.endswith("unchanged") else b"hello again\n"
                if not state.endswith("unchanged"):
                    pr.write("src", "hello again\n")
                if state.startswith("removed"):
                    pr.rm("T")
                for f in ("T.runs", "T.started", "T.stamped"):
                    pr.rm(f)
                env = dict(T_HEAD="1.5") if phase == "before-stamp" else dict(T_TAIL="1.5")
                r2 = sched.run_cmds(pr, [["redo", "-j2", "A", "W"]], timeout=60, env=env)[0]
                runs2 = (pr.read("T.runs") or b"").count(b"run")
                stats["builds"] += 2
                out = _outcome(pr, ["T", "A", "B"])
                want = {"T": text, "A": b"a:" + text, "B": b"b:" + text}
                problems = []
                if r1.rc != 0 or runs1 != 1:
                    problems.append("first build: exit %d, T's script ran %d time(s)" % (r1.rc, runs1))
                if r2.timed_out or r2.rc != 0:
                    problems.append("`redo -j2 A W` exited %s" % r2.rc)
                if runs2 > 1:
                    problems.append("T's script ran %d times in one `redo -j2 A W`" % runs2)
                if not problems and out != want:
                    problems.append("contents afterwards %r, a serial build gives %r" % ({k: v for k, v in out.items() if v != want[k]}, {k: want[k] for k in out if out[k] != want[k]}))
                res.append((phase, state, runs2))
                if problems:
                    p = write_replay("C07", "second-look", dict(kind="impl-monitor", phase=phase, old_file=state, problems=problems, stderr=r2.err[-1500:],
                                                                scenario="T.do: redo-ifchange src; [sleep]; cat src >$3; redo-stamp <$3; [sleep].  A.do, B.do: redo-ifchange T.  W.do: wait for T's phase marker; redo-ifchange B.  redo A B; %s%s; redo -j2 A W" % ("" if state.endswith("unchanged") else "edit src", "; rm T" if state.startswith("removed") else "")))
                    viol.append(Violation("C07", p, "a second branch looks at a checksummed target %s its redo-stamp (old file %s): %s" % ("before" if phase == "before-stamp" else "after", state, "; ".join(problems))))
                    return
            finally:
                pr.destroy()
    stats["second_look"] = res
    stats["directed"] = stats.get("directed", 0) + 1


def repaired_virtual_family(viol, stats):
    """A target without an output file (a check, a phony target) or whose output is a directory fails in one run and
    succeeds in the next: from then on it is an ordinary up-to-date target again — its script runs at most once per run
    however many dependents request it, serially and at -j3, and a further run without changes runs nothing."""
    for j in ("-j1", "-j3"):
        pr = Project()
        try:
            pr.write("chk.do", "echo ran >>chk.runs\nredo-ifchange input\n[ -e ok ] || exit 1\n")
            pr.write("tree.do", "echo ran >>tree.runs\nredo-ifchange input\n[ -e ok ] || exit 1\nmkdir \"$3\"\n")
            pr.write("p.do", "redo-ifchange chk tree\necho p\n")
            pr.write("q.do", "redo-ifchange chk tree\necho q\n")
            pr.write("r.do", "sleep 0.3\nredo-ifchange chk tree\necho r\n")
            pr.write("all.do", "redo-ifchange p q r\n")
            pr.write("input", "1")
            r1 = sched.run_cmds(pr, [["redo", j, "all"]], timeout=60)[0]          # chk and tree fail
            pr.write("ok", "")
            counts = []
            for k in range(3):
                before = {n: len((pr.read(n + ".runs") or b"").split()) for n in ("chk", "tree")}
                r = sched.run_cmds(pr, [["redo", j, "all"]], timeout=60)[0]
                stats["builds"] += 1
                after = {n: len((pr.read(n + ".runs") or b"").split()) for n in ("chk", "tree")}
                counts.append(dict(rc=r.rc, runs={n: after[n] - before[n] for n in after}))
            problems = []
            if r1.rc == 0:
                problems.append("the first run exits 0 although chk and tree fail")
            if counts[0]["rc"] != 0:
                problems.append("the run after the repair exits %d" % counts[0]["rc"])
            for n in ("chk", "tree"):
                if counts[0]["runs"][n] != 1:
                    problems.append("%s.do ran %d times in the run after the repair (three dependents)" % (n, counts[0]["runs"][n]))
            # chk has no output file: like every target without one it is rebuilt by every run that needs it … once
            for k in (1, 2):
                for n in ("chk", "tree"):
                    if counts[k]["runs"][n] > 1:
                        problems.append("%s.do ran %d times in later run %d" % (n, counts[k]["runs"][n], k))
            if problems:
                p = write_replay("C07", "repaired-virtual", dict(kind="impl-monitor", j=j, problems=problems, counts=counts,
                                                                 scenario="chk.do (no output) and tree.do (mkdir $3) fail until the file `ok` exists; p, q, r depend on both; redo %s all, touch ok, redo %s all three times" % (j, j)))
                viol.append(Violation("C07", p, "a target without an output file that failed and was repaired (%s): " % j + "; ".join(problems[:3])))
                return
        finally:
            pr.destroy()
    stats["directed"] = stats.get("directed", 0) + 1


def keep_going_locked_sibling_family(viol, stats):
    """--keep-going with a failing target and, in the same command, a target that another job is building at the moment:
    the command must still report the failure (same status class as the serial build, the dependent not built), and its
    job events must pass the ParF acceptor (a command returns 0 only if nothing it named has failed)."""
    res = {}
    for j in ("-j1", "-j4"):
        pr = Project()
        try:
            pr.write("bad.do", "echo failing on purpose >&2\nexit 1\n")
            pr.write("shared.do", "sleep 0.9\necho shared-content\n")
            pr.write("other.do", "redo-ifchange shared\nsed 's/^/other:/' shared\n")
            pr.write("prod.do", "sleep 0.3\nredo-ifchange bad shared\nsed 's/^/prod:/' shared\n")
            pr.write("all.do", "redo-ifchange other prod\n")
            r = sched.run_cmds(pr, [["redo", "-k", j, "all"]], timeout=60)[0]
            stats["builds"] += 1
            dbn = {"all": ["other", "prod"], "other": ["shared"], "prod": ["bad", "shared"], "shared": [], "bad": []}
            pans, pev, pgraph = par_replay(r.trace, dbn, fids_of(pr), failing=["bad"], keep_going=True)
            res[j] = dict(rc=r.rc, present={n: pr.read(n) is not None for n in ("shared", "other", "prod", "bad")}, par=pans, events=pev, graph=pgraph, timed_out=r.timed_out)
        finally:
            pr.destroy()
    a, b = res["-j1"], res["-j4"]
    problems = []
    for j, x in res.items():
        if x["timed_out"]:
            problems.append("redo -k %s all did not finish" % j)
        if not x["par"].startswith("ok"):
            problems.append("redo -k %s all: job events rejected by the ParF acceptor: %s" % (j, x["par"]))
        elif (int(re.search(r"status=(\d)", x["par"]).group(1)) == 0) != (x["rc"] == 0):
            problems.append("redo -k %s all: exit status %d but the accepted events give status class %s" % (j, x["rc"], re.search(r"status=(\d)", x["par"]).group(1)))
    if (a["rc"] == 0) != (b["rc"] == 0):
        problems.append("exit status %d at -j4, %d serially" % (b["rc"], a["rc"]))
    if a["present"] != b["present"]:
        problems.append("built files differ from the serial build: %r vs %r" % (b["present"], a["present"]))
    if b["rc"] == 0 or b["present"]["prod"]:
        problems.append("the failure of `bad` was lost: status %d, prod built: %s" % (b["rc"], b["present"]["prod"]))
    if problems:
        p = write_replay("C07", "keep-going-locked", dict(kind="impl-monitor+trace", scenario="all -> other -> shared (slow); all -> prod -> {bad (fails), shared}; redo -k all", results=res, problems=problems))
        viol.append(Violation("C07", p, "--keep-going with a failing target beside a locked one: " + "; ".join(problems[:3])))
    stats["directed"] = stats.get("directed", 0) + 1


def run(ctx):
    rng = random.Random(ctx["seed"] * 29 + 7)
    viol = ctx.setdefault("violations", [])
    thorough = ctx["tier"] == "thorough"
    n = 60 if thorough else 9
    stats = dict(projects=0, builds=0, executions=0, variants={}, failing_projects=0, rebuilds=0)
    samples = []
    for i in range(n):
        g = sched.gen_graph(rng, rng.randint(4, 12))
        failing = rng.random() < 0.25
        if failing:
            for nm in rng.sample(sorted(g), max(1, len(g) // 5)):
                g[nm]["fail"] = True
            stats["failing_projects"] += 1
        if rng.random() < 0.5:
            for nm in g:
                g[nm]["stamp"] = rng.random() < 0.3
                g[nm]["stamp_early"] = g[nm]["stamp"] and rng.random() < 0.6
                g[nm]["always"] = rng.random() < 0.15
        # a family of targets with one stem, built by default.<ext>.do rules that write to $3 (their temporary files
        # and arguments must not collide when they are built at the same time)
        family = rng.random() < 0.6
        fam = ["gen.a", "gen.b", "gen.c"] if family else []
        if family:
            g["zfam"] = dict(deps=[], dur=0, fail=False, always=False, stamp=False)
        variants = [["-j1"], ["-j%d" % rng.randint(2, 4)], ["-j%d" % rng.randint(2, 8), "--shuffle"], ["-j1", "--shuffle"]]
        if thorough:
            variants += [["-j8"], ["-j3", "--shuffle"]]
        if failing:
            variants += [["-j1", "-k"], ["-j%d" % rng.randint(2, 4), "-k"]]
        results = []
        for v in variants:
            pr = Project()
            try:
                sched.write_project(pr, g)
                if family:
                    pr.write("zfam.do", "redo-ifchange %s\ncat %s\n" % (" ".join(fam), " ".join(fam)))
                    for x in "abc":
                        pr.write("default.%s.do" % x, 'sleep 0.0%d\necho "$1 $2 %s" >"$3"\n' % (rng.randint(2, 6), x))
                seq = []
                for phase in range(2):
                    if phase == 1:
                        # second run after touching a leaf script's input: rebuild behaviour must agree too
                        leaf = sorted(g)[0]
                        pr.write(leaf + ".do", pr.read(leaf + ".do").decode() + "# touched\n")
                        stats["rebuilds"] += 1
                    r = sched.run_cmds(pr, [["redo"] + v + ["all"]], timeout=90)[0]
                    stats["builds"] += 1
                    stats["variants"][" ".join(v)] = stats["variants"].get(" ".join(v), 0) + 1
                    toppid = r.trace[0][0] if r.trace else 0
                    ev = once_events(r.trace, toppid, True)
                    ans = run_lines(MODEL, ["once-replay " + (";".join(ev) if ev else "-")])[0]
                    over, counts = sched.target_overlaps(r.work)
                    stats["executions"] += sum(counts.values())
                    scen = dict(graph={a: d["deps"] for a, d in g.items()}, failing=[a for a, d in g.items() if d["fail"]], variant=v, phase=phase)
                    if r.timed_out or "panicked" in r.err:
                        p = write_replay("C07", "abort-%d" % i, dict(kind="impl-monitor", scenario=scen, rc=r.rc, stderr=r.err[-1500:]))
                        viol.append(Violation("C07", p, "redo %s all: %s" % (" ".join(v), "did not finish" if r.timed_out else "a process aborted")))
                        break
                    if not ans.startswith("ok") or any(c > 1 for c in counts.values()):
                        p = write_replay("C07", "once-%d" % i, dict(kind="trace-rejected+impl-monitor", scenario=scen, answer=ans, counts=counts, events=ev))
                        viol.append(Violation("C07", p, "redo %s all: a target's script ran more than once in one run (%s; model: %s)" % (" ".join(v), {k: c for k, c in counts.items() if c > 1}, ans)))
                        break
                    # control flow of builder::run in every process of the build (RunLoop acceptor; C07d's theorems:
                    # one decision per file id per command)
                    if not sched.runloop_check("C07", "build-%d" % i, r.trace, viol, stats, scen):
                        break
                    # schedule independence: the same events through the Par acceptor (guards of C07b's theorems)
                    dbn = {a: d["deps"] for a, d in g.items()}
                    dbn["all"] = sorted(n2 for n2 in g if not any(n2 in d["deps"] for d in g.values()))
                    if family:
                        dbn["zfam"] = list(fam)
                        for x in fam:
                            dbn[x] = []
                    pans, pev, pgraph = par_replay(r.trace, dbn, fids_of(pr), failing=[a for a, d in g.items() if d["fail"]], keep_going=("-k" in v))
                    stats["par_events"] = stats.get("par_events", 0) + len(pev)
                    if pans.startswith("ok") and not r.timed_out:
                        mstatus = int(re.search(r"status=(\d)", pans).group(1))
                        if (mstatus == 0) != (r.rc == 0):
                            p = write_replay("C07", "par-status-%d" % i, dict(kind="model-vs-impl", acceptor="ParF.status (RedoModel/ParF.lean)", scenario=scen, answer=pans, rc=r.rc, graph=pgraph, events=pev))
                            viol.append(Violation("C07", p, "redo %s all (run %d): exit status %d, but the accepted job events leave the top target %s (model status class %d)" % (" ".join(v), phase + 1, r.rc, "settled without failure" if mstatus == 0 else "failed or unsettled", mstatus)))
                            break
                    if not pans.startswith("ok"):
                        p = write_replay("C07", "par-%d" % i, dict(kind="trace-rejected", acceptor="ParF.step (RedoModel/ParF.lean)", scenario=scen, answer=pans, graph=pgraph, events=pev,
                                                                    replay="printf 'parf-replay %s %d - %s\\n' | redomodel" % (pgraph, 1 if "-k" in v else 0, ";".join(pev))))
                        viol.append(Violation("C07", p, "redo %s all (run %d): job events rejected by the schedule-independence acceptor: %s (event %s)" % (" ".join(v), phase + 1, pans,
                                      pev[int(pans.split("=")[1])] if "at=" in pans and int(pans.split("=")[1]) < len(pev) else "?")))
                        break
                    contents = {nm: pr.read(nm) for nm in list(g) + ["all"] + fam}
                    seq.append(dict(rc=r.rc, contents=contents, db=db_abstract(pr), counts=counts))
                if viol:
                    break
                results.append((v, seq))
            finally:
                pr.destroy()
        if viol:
            break
        stats["projects"] += 1
        base_v, base = results[0]
        for v, seq in results[1:]:
            for phase, (a, b) in enumerate(zip(base, seq)):
                diffs = []
                if (a["rc"] == 0) != (b["rc"] == 0):
                    diffs.append("exit status %d vs serial %d" % (b["rc"], a["rc"]))
                if not failing:
                    if a["contents"] != b["contents"]:
                        bad = [k for k in a["contents"] if a["contents"][k] != b["contents"][k]]
                        diffs.append("contents of %r differ from the serial build" % bad)
                    if a["db"] != b["db"]:
                        diffs.append("recorded dependency state differs from the serial build")
                    if a["counts"] != b["counts"]:
                        diffs.append("executed scripts %r vs serial %r" % (b["counts"], a["counts"]))
                if diffs:
                    p = write_replay("C07", "outcome-%d" % i, dict(kind="impl-monitor", graph={x: d["deps"] for x, d in g.items()}, flags={x: {k: d[k] for k in ("stamp", "always", "fail", "dur")} for x, d in g.items()}, variant=v, phase=phase, diffs=diffs,
                                                                   serial_db=a["db"], variant_db=b["db"]))
                    viol.append(Violation("C07", p, "redo %s all (run %d): %s" % (" ".join(v), phase + 1, "; ".join(diffs))))
                    break
            if viol:
                break
        if len(samples) < 2:
            samples.append(dict(graph={a: d["deps"] for a, d in g.items()}, variants=[" ".join(v) for v in variants], serial_counts=base[0]["counts"]))
    if not viol:
        late_declaration_family(viol, stats)
    if not viol:
        keep_going_locked_sibling_family(viol, stats)
    if not viol:
        repaired_virtual_family(viol, stats)
    if not viol:
        second_look_family(viol, stats)
    return dict(evaluations=stats["builds"], distinct_nontrivial=stats["projects"],
                rule="seeded random graphs of 4-12 targets (chains, diamonds, fans, layers; checksummed and always targets; 25% with failing scripts; script durations 0-120 ms) each built from scratch and rebuilt after a leaf change in fresh copies with -j1, -jN, -jN --shuffle, -j1 --shuffle; every run's job events replayed through the Lean acceptor Once.step; outcomes compared with the serial build; distinct = projects",
                samples=samples, traces_validated_against_impl=stats["builds"], distribution=stats)
