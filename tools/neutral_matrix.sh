#!/bin/bash
# Run quick checks against behaviour-preserving changes: any VIOLATION line is a false alarm of the machinery.
# usage: tools/neutral_matrix.sh <lane name> <patch dir> <ids...>     (uses scratch clone/build /tmp/nm-<lane>-{repo,build})
set -u
LANE="$1"; DIR="$2"; shift 2
cd "$(dirname "$0")/.."
for p in "$DIR"/patch*.diff; do
  [ -f "$p" ] || continue
  OUT=$(SEED_SCRATCH=/tmp/nm-$LANE- tools/try_seed.sh "$p" "$@" 2>&1)
  echo "== $p"; echo "$OUT" | grep -v "^$" | cut -c1-400
done
echo "LANE-DONE $LANE"
