"""C09 — no interleaving crashes or deadlocks the scheduler.
Correspondence: token and lock traces of every scenario are replayed through the Lean acceptors (Tokens, Locks);
the TokLoop theorems (Props/C09.lean) show that the per-process token counter never leaves {0,1} between
scheduler steps, which is what the Rust assertions demand.  Implementation monitors: no process exits 101 /
prints a panic, every scenario terminates within its bound, a build whose scripts all succeed exits 0.
Schedule control: REDO_VERIF_DELAY pauses a process right after it started a job or noticed a child exit, so
that several events (child exits, token arrivals) are ready at its next wake-up."""
import time, itertools, random
from common import *
from proj import Project
import sched

ASSUMPTIONS = [
    "fairness: a runnable process is eventually scheduled; termination is observed under a wall-clock bound",
    "the delay hook only pauses a process at a trace point; it adds no behaviour",
]


def check_run(viol, tag, scen, rs, expect_success=True, kf_ids=(), known_hit=None):
    for r in rs:
        bad = None
        if r.timed_out:
            bad = "did not terminate within the bound (deadlock?)"
        elif r.rc == 101 or "panicked at" in r.err:
            m = re.search(r"panicked at ([^\n]*)\n([^\n]*)", r.err)
            bad = "a redo process aborted on an internal assertion: %s %s" % (m.group(1) if m else "", m.group(2) if m else "")
        elif expect_success and r.rc != 0:
            bad = "all scripts succeed but the command exited %d" % r.rc
        if bad:
            for kid, pat, text in kf_ids:
                if re.search(pat, r.err) or (r.timed_out and pat == "TIMEOUT"):
                    if known_hit is not None and text not in known_hit:
                        known_hit.append(text)
                    bad = None
                    break
        if bad:
            tokrep = [(str(g), a) for g, a, n in sched.replay_tokens(rs[0].trace)]
            p = write_replay("C09", tag, dict(kind="impl-monitor", scenario=scen, rc=r.rc, problem=bad, stderr=r.err[-2500:], token_replay=tokrep,
                                                 token_events={str(k): v for k, v in sched.token_groups(rs[0].trace).items()}))
            viol.append(Violation("C09", p, "%s: %s" % (scen.get("name", tag), bad)))
            return False
    tok = sched.replay_tokens(rs[0].trace)
    for g, ans, nev in tok:
        if not ans.startswith("ok"):
            p = write_replay("C09", tag + "-tok", dict(kind="trace-rejected-by-model", scenario=scen, answer=ans, events=sched.token_groups(rs[0].trace).get(g)))
            viol.append(Violation("C09", p, "%s: token trace rejected by the model: %s" % (scen.get("name", tag), ans), no_input=True))
            return False
    if not sched.runloop_check("C09", tag, rs[0].trace, viol, WAITSTATS, scen):
        return False
    ans, ev = sched.replay_locks(rs[0].trace)
    if not ans.startswith("ok"):
        p = write_replay("C09", tag + "-lock", dict(kind="trace-rejected-by-model", scenario=scen, answer=ans, events=ev))
        viol.append(Violation("C09", p, "%s: lock trace rejected by the model: %s" % (scen.get("name", tag), ans), no_input=True))
        return False
    # wait-for protocol (Waits acceptor): blocking waits only without locks/jobs, requests follow the declared graph;
    # the progress theorem then excludes a state in which nobody can move
    ans, ev, reach = sched.replay_waits(rs[0].trace, scen.get("graph"))
    m = re.match(r"ok alive=(\d+) blocked=(\d+) deadlocked=(\d) stuckstates=(\d+) maxblocked=(\d+)", ans)
    if not m:
        p = write_replay("C09", tag + "-wait", dict(kind="trace-rejected-by-model", scenario=scen, answer=ans, events=ev, reach=reach))
        viol.append(Violation("C09", p, "%s: wait-for trace rejected by the model: %s" % (scen.get("name", tag), ans), no_input=True))
        return False
    if int(m.group(4)) > 0:
        p = write_replay("C09", tag + "-stuck", dict(kind="model-state-without-enabled-process", scenario=scen, answer=ans, events=ev, reach=reach))
        viol.append(Violation("C09", p, "%s: the run passed through a state in which no process could move: %s" % (scen.get("name", tag), ans)))
        return False
    if WAITSTATS is not None:
        WAITSTATS["wait_traces"] = WAITSTATS.get("wait_traces", 0) + 1
        WAITSTATS["wait_events"] = WAITSTATS.get("wait_events", 0) + len(ev)
        WAITSTATS["max_blocked"] = max(WAITSTATS.get("max_blocked", 0), int(m.group(5)))
        WAITSTATS["with_declared_graph"] = WAITSTATS.get("with_declared_graph", 0) + (1 if scen.get("graph") is not None else 0)
    return True


WAITSTATS = {}


def run(ctx):
    rng = random.Random(ctx["seed"] * 23 + 9)
    viol = ctx.setdefault("violations", [])
    thorough = ctx["tier"] == "thorough"
    stats = dict(scenarios=0, runs=0, processes=0, delayed=0)
    known_hit, samples = [], []
    kf = {k["id"]: k for k in known_findings("C09") if k.get("status") == "known"}
    kfl = []
    if "same-file-twice-in-one-command" in kf:
        kfl.append(("same-file-twice-in-one-command", r"locks\.insert\(fid\)", "`redo a ./a`: the same file named twice in one command aborts on the lock-registry assertion (state.rs Lock::new)"))

    def go(name, build, cmds, expect_success=True, env=None, stagger=0.0, timeout=40, graph=None):
        pr = Project()
        try:
            build(pr)
            cmds = [[c.replace("@PROJ@", os.path.basename(pr.root)) for c in cmd] for cmd in cmds]
            rs = sched.run_cmds(pr, cmds, env=env, timeout=timeout, stagger=stagger)
            stats["scenarios"] += 1
            stats["runs"] += len(cmds)
            stats["processes"] += len(set(e[0] for e in rs[0].trace))
            if env and "REDO_VERIF_DELAY" in env:
                stats["delayed"] += 1
            scen = dict(name=name, commands=cmds, env=env or {}, graph=graph)
            ok = check_run(viol, name.replace(" ", "-")[:40], scen, rs, expect_success, kfl, known_hit)
            if ok and len(samples) < 3:
                samples.append(dict(scenario=scen, rcs=[r.rc for r in rs], events=len(rs[0].trace)))
            return ok
        finally:
            pr.destroy()

    # 1. systematic small scenarios: k jobs, every subset made "simultaneous" by pausing the parent after each start
    for k, j in ([(2, 2), (3, 2), (3, 3), (4, 3)] if not thorough else [(2, 2), (3, 2), (3, 3), (4, 2), (4, 3), (4, 4), (5, 3), (6, 4)]):
        for durs in ([(0,) * k, tuple(30 * (i % 2) for i in range(k))] if not thorough else itertools.islice(itertools.product([0, 40], repeat=k), 8)):
            for delay in ("js.start=80", "js.childexit=60", "js.start=80,js.childexit=60"):
                def build(pr, k=k, durs=durs):
                    for i in range(k):
                        pr.write("t%d.do" % i, ("sleep %.3f\n" % (durs[i] / 1000.0) if durs[i] else "") + "echo t%d\n" % i)
                    pr.write("all.do", "redo-ifchange " + " ".join("t%d" % i for i in range(k)) + "\n")
                if not go("simultaneous k=%d j=%d durs=%s delay=%s" % (k, j, durs, delay), build, [["redo", "-j%d" % j, "all"]], env={"REDO_VERIF_DELAY": delay},
                          graph=dict([("all", ["t%d" % i for i in range(k)])] + [("t%d" % i, []) for i in range(k)])):
                    break
            if viol:
                break
        if viol:
            break
    # 2. wide fans at high -j, with and without the log reader
    if not viol:
        for rep in range(6 if thorough else 3):
            w = rng.choice([8, 10, 12])
            def build(pr, w=w):
                for i in range(w):
                    pr.write("f%d.do" % i, "echo f%d\n" % i)
                pr.write("all.do", "redo-ifchange " + " ".join("f%d" % i for i in range(w)) + "\n")
            if not go("fan of %d at -j8" % w, build, [["redo", "-j8"] + ([] if rep % 2 else ["--no-log"]) + ["all"]],
                      graph=dict([("all", ["f%d" % i for i in range(w)])] + [("f%d" % i, []) for i in range(w)])):
                break
    # 3. several invocations contending for the same targets
    if not viol:
        def build(pr):
            pr.write("slow.do", "sleep 0.6; echo slow\n")
        go("two top-level redo of one target", build, [["redo", "slow"], ["redo", "slow"]], stagger=0.2)
    if not viol:
        def build(pr):
            pr.write("x.do", "sleep 0.3; echo x\n")
            pr.write("y.do", "sleep 0.6; redo-ifchange x; echo y\n")
            pr.write("p.do", "redo-ifchange x y; echo p\n")
            pr.write("q.do", "redo-ifchange y; echo q\n")
        go("lock hand-over on an acyclic graph (p->{x,y}, q->y, y->x)", build, [["redo", "q"], ["redo", "p"]], stagger=0.1, timeout=30,
           graph=dict(p=["x", "y"], q=["y"], y=["x"], x=[]))
    # 4. the same target named more than once in one command
    if not viol:
        def build(pr):
            pr.write("a.do", "sleep 0.25; echo a\n")
            pr.write("b.do", "echo b\n")
        for cmd in (["redo", "a", "./a"], ["redo-ifchange", "a", "./a"], ["redo", "-j2", "a", "a"], ["redo", "-j2", "a", "./a"],
                    ["redo-ifchange", "b", "a", "./b", "../" + "PROJ" + "/a"], ["redo", "-j3", "a", "./a", "b"]):
            cmd = [c.replace("PROJ", "@PROJ@") for c in cmd]
            if not go("same target twice: " + " ".join(cmd), build, [cmd]):
                break
    # 4b. a token read that loses the race: ten siblings wait for one slow target at -j2; when it is done they all want
    #     their token back while the parent (paused between select() and read(), delay hook js.tryread) wants one too
    if not viol:
        sib = "x y z u v w p q r s".split()
        def build(pr):
            pr.write("all.do", "redo-ifchange " + " ".join(sib) + "\n")
            for x in sib:
                pr.write(x + ".do", "redo-ifchange slow; echo %s\n" % x)
            pr.write("slow.do", "sleep 0.3; echo slow\n")
        for rep in range(6 if thorough else 3):
            if not go("stolen token (parent loses the select/read race) #%d" % rep, build, [["redo", "-j2", "all"]],
                      env={"REDO_VERIF_DELAY": "js.tryread:all=80,js.tryread=10"}, timeout=15,
                      graph=dict([("all", sib), ("slow", [])] + [(x, ["slow"]) for x in sib])):
                break
    # 4c. a script starts its own jobserver (`redo -j2 inner`) after its redo-ifchange had to borrow a token: command B
    #     builds x (1 s) while command A (`redo -j1 a c`) builds a (needs x, then runs `redo -j2 inner`) and c (2 s)
    if not viol:
        pr = Project()
        try:
            pr.write("x.do", "sleep 1.0\necho x\n")
            pr.write("a.do", "redo-ifchange x\nredo -j2 inner\necho a\n")
            pr.write("c.do", "sleep 2.0\necho c\n")
            pr.write("inner.do", "echo inner\n")
            rs = sched.run_cmds(pr, [["redo", "x"], ["redo", "-j1", "a", "c"]], timeout=40, stagger=0.3)
            stats["scenarios"] += 1
            stats["runs"] += 2
            stats["nested_jobserver_cheats"] = sum(1 for e in rs[0].trace if e[2] == "js.cheat")
            scen = dict(name="nested own jobserver after a cheat", commands=[["redo", "x"], ["redo", "-j1", "a", "c"]])
            bad = [r for r in rs if r.rc != 0 or r.timed_out or "on exit: expected" in r.err or "panicked" in r.err]
            if bad:
                p = write_replay("C09", "nested-jobserver", dict(kind="impl-monitor", scenario=scen, rcs=[r.rc for r in rs], stderr=[r.err[-1200:] for r in rs]))
                m = re.search(r"on exit: expected[^\n]*", bad[0].err)
                viol.append(Violation("C09", p, "all scripts succeed but a command exited %s%s (a.do runs `redo -j2 inner` after `redo-ifchange x` waited for another command's lock)" % (bad[0].rc, ": " + m.group(0) if m else "")))
        finally:
            pr.destroy()
    # 4d. a process waits several seconds for a token (it gave its own up while waiting for a lock; meanwhile both
    #     tokens are held by long jobs; no log viewer, so no borrowing): the back-off of the wait loop stays bounded
    #     (uncapped it overflowed and the process aborted after about 65 s — repaired in /repo, see known_findings.json)
    if not viol:
        pr = Project()
        try:
            hold = 70 if thorough else 3
            pr.write("all.do", "redo-ifchange a b long\n")
            pr.write("a.do", "sleep 0.3\nredo-ifchange c\necho a\n")
            pr.write("b.do", "redo-ifchange c\nsleep %d\necho b\n" % hold)
            pr.write("c.do", "sleep 1\necho c\n")
            pr.write("long.do", "sleep %d\necho long\n" % hold)
            rs = sched.run_cmds(pr, [["redo", "-j2", "--no-log", "all"]], timeout=hold + 40)
            stats["scenarios"] += 1
            stats["runs"] += 1
            backs = [int(e[3][0]) for e in rs[0].trace if e[2] == "js.backoff" and e[3] and e[3][0].isdigit()]
            stats["backoff_events"] = len(backs)
            scen = dict(name="long wait for a token", commands=[["redo", "-j2", "--no-log", "all"]], hold_seconds=hold)
            problems = []
            if rs[0].rc != 0 or rs[0].timed_out or "panicked" in rs[0].err:
                problems.append("all scripts succeed but the command exited %s%s" % (rs[0].rc, " (a process aborted: %s)" % re.search(r"panicked at[^\n]*\n[^\n]*", rs[0].err).group(0) if "panicked" in rs[0].err else ""))
            if backs and max(backs) > 1000:
                problems.append("the back-off of the token wait loop reached %d ms after %d rounds and doubles every second: Duration overflow (abort) after about 65 s of waiting" % (max(backs), len(backs)))
            if not backs:
                problems.append("no process waited for a token (scenario lost its meaning)")
            if problems:
                p = write_replay("C09", "token-wait", dict(kind="impl-monitor", scenario=scen, problems=problems, backoff_ms=backs[-12:], stderr=rs[0].err[-1500:],
                    replay="all.do: redo-ifchange a b long; a.do: sleep 0.3; redo-ifchange c; b.do: redo-ifchange c; sleep 75; c.do: sleep 1; long.do: sleep 75; redo -j2 --no-log all"))
                viol.append(Violation("C09", p, "long wait for a token: " + "; ".join(problems)))
        finally:
            pr.destroy()
    # 4e. the top-level command writes more log lines into the pipe to its log viewer than the pipe holds (many targets
    #     with long names on one command line) while the viewer follows a slow job that this very process must record:
    #     if the viewer does not keep reading its standard input, redo blocks in write(2) for ever although every script
    #     succeeds (found from a seeding agent's side remark, repaired in /repo — see known_findings.json)
    if not viol:
        pr = Project()
        try:
            pr.write("slow.do", "sleep 2.5; echo slow\n")
            pr.write("default.t.do", "echo $2\n")
            ts = ["%s_%d.t" % ("x" * 200, i) for i in range(400)]
            rs = sched.run_cmds(pr, [["redo", "-j2", "slow"] + ts], timeout=45)
            stats["scenarios"] += 1
            stats["runs"] += 1
            built = sum(1 for t in ts if pr.read(t) is not None)
            scen = dict(name="log pipe back-pressure", commands=[["redo", "-j2", "slow", "<400 targets with 200-character names>"]])
            if rs[0].timed_out or rs[0].rc != 0:
                p = write_replay("C09", "log-pipe", dict(kind="impl-monitor", scenario=scen, rc=rs[0].rc, timed_out=rs[0].timed_out, built=built, stderr=rs[0].err[-1200:],
                    replay="slow.do: sleep 2.5; echo slow.  default.t.do: echo $2.  redo -j2 slow x{200}_0.t … x{200}_399.t  (hangs; with --no-log it finishes in seconds)"))
                viol.append(Violation("C09", p, "`redo -j2 slow <400 long-named targets>`: all scripts succeed but the command %s (%d of 400 targets built): redo blocks writing log lines to its log viewer, which does not read them while it follows `slow`" % ("did not terminate within the bound" if rs[0].timed_out else "exited %d" % rs[0].rc, built)))
        finally:
            pr.destroy()
    # 4f. the producer side of `… | redo-stamp` runs a redo command itself: redo-stamp must not hold the database while it
    #     waits for its input (with the write lock taken first the two wait for each other until the 60 s busy timeout)
    if not viol:
        pr = Project()
        try:
            pr.write("part.do", "sleep 0.2; echo part\n")
            pr.write("s.do", '( redo-ifchange part && cat part ) | redo-stamp\ncat part >"$3"\n')
            pr.write("all.do", "redo-ifchange s\n")
            t0 = time.time()
            rs = sched.run_cmds(pr, [["redo", "-j2", "all"]], timeout=25)
            stats["scenarios"] += 1
            stats["runs"] += 1
            scen = dict(name="producer of a stamped pipeline runs redo", commands=[["redo", "-j2", "all"]])
            if rs[0].timed_out or rs[0].rc != 0:
                p = write_replay("C09", "stamp-pipeline", dict(kind="impl-monitor", scenario=scen, rc=rs[0].rc, timed_out=rs[0].timed_out, wall=time.time() - t0, stderr=rs[0].err[-1200:],
                    replay="s.do: ( redo-ifchange part && cat part ) | redo-stamp; cat part >$3.  part.do: sleep 0.2; echo part.  redo -j2 all"))
                viol.append(Violation("C09", p, "`( redo-ifchange part && cat part ) | redo-stamp`: all scripts succeed but the command %s" % ("did not terminate within 25 s (redo-stamp and the redo-ifchange feeding it wait for each other)" if rs[0].timed_out else "exited %d: %s" % (rs[0].rc, rs[0].err.strip().splitlines()[-1][:160] if rs[0].err.strip() else ""))))
        finally:
            pr.destroy()
    # 4g. a nested `redo -j1` (its own jobserver) started by a script whose redo-ifchange had just borrowed a token and left
    #     its IOU on the outer build's cheat pipe: the inner jobserver must not see that IOU
    if not viol:
        pr = Project()
        try:
            pr.write("A.do", "redo-ifchange X\necho a\n")
            pr.write("B.do", "sleep 0.4\nredo-ifchange X\nredo -j1 Z\necho b\n")
            pr.write("C.do", "sleep 3.5\necho c\n")
            pr.write("D.do", "sleep 3.5\necho d\n")
            pr.write("X.do", "sleep 1.5\necho x\n")
            pr.write("Z.do", "echo z\n")
            rs = sched.run_cmds(pr, [["redo", "-j2", "A", "B", "C", "D"]], timeout=40)
            stats["scenarios"] += 1
            stats["runs"] += 1
            stats["nested_j1_cheats"] = sum(1 for e in rs[0].trace if e[2] == "js.cheat")
            scen = dict(name="nested redo -j1 after an IOU", commands=[["redo", "-j2", "A", "B", "C", "D"]])
            missing = [t for t in "ABCDXZ" if pr.read(t) is None]
            if rs[0].timed_out or rs[0].rc != 0 or "on exit: expected" in rs[0].err or "panicked" in rs[0].err or missing:
                m = re.search(r"on exit: expected[^\n]*", rs[0].err)
                p = write_replay("C09", "nested-j1", dict(kind="impl-monitor", scenario=scen, rc=rs[0].rc, missing=missing, stderr=rs[0].err[-1500:],
                    replay="A.do: redo-ifchange X.  B.do: sleep 0.4; redo-ifchange X; redo -j1 Z.  C.do, D.do: sleep 3.5.  X.do: sleep 1.5.  redo -j2 A B C D (log viewer on)"))
                viol.append(Violation("C09", p, "all scripts succeed but `redo -j2 A B C D` (B.do runs `redo -j1 Z` after its redo-ifchange borrowed a token) %s%s" % ("did not terminate" if rs[0].timed_out else "exited %d" % rs[0].rc, ": " + m.group(0) if m else "")))
        finally:
            pr.destroy()
    # 5. random graphs, random -j, random delays
    if not viol:
        for i in range(60 if thorough else 8):
            g = sched.gen_graph(rng, rng.randint(4, 10))
            def build(pr, g=g):
                sched.write_project(pr, g)
            j = rng.randint(2, 6)
            d = rng.choice([None, "js.start=%d" % rng.choice([20, 60]), "js.childexit=%d" % rng.choice([20, 60]), "js.read=40"])
            cmds = [["redo", "-j%d" % j] + (["--shuffle"] if rng.random() < 0.3 else []) + ["all"]]
            if rng.random() < 0.3:
                cmds.append(["redo-ifchange", rng.choice(sorted(g))])
            gr = {n: list(v["deps"]) for n, v in g.items()}
            gr["all"] = sorted(n for n in g if not any(n in v["deps"] for v in g.values()))
            if not go("random graph %d j=%d delay=%s" % (i, j, d), build, cmds, env={"REDO_VERIF_DELAY": d} if d else None, timeout=60, graph=gr):
                break
    return dict(evaluations=stats["runs"], distinct_nontrivial=stats["scenarios"],
                rule="(1) systematically: k=2..4 jobs at -j2/-j3 with the parent paused after every start and/or child exit so that every combination of {child exits, token arrivals} is pending at a wake-up; (2) fans of 8-12 jobs at -j8; (3) two invocations contending for one target and the acyclic lock hand-over graph; (4) one file named twice in a command; (4b) a parent that loses the select()/read() race for a token while its children wait for theirs; (5) random graphs with random -j, --shuffle and delays; every trace replayed through the Tokens, Locks and Waits (wait-for / progress) acceptors",
                samples=samples, traces_validated_against_impl=stats["scenarios"], distribution=dict(stats, per_process_counter_model_TokLoop=dict(sched.TOKLOOP_STATS), **WAITSTATS), known_hit=known_hit)
