"""C01 — decided on the serial dependency engine; see deps_check.py (shared body), core_check.py (the proven
plain-target core against the real binaries) and DESIGN §7."""
import deps_check, core_check
from c_deps_common import *

def run(ctx):
    cov = deps_check.run_property(ctx, "C01", FEATURES["C01"], NCASES["C01"], WANT["C01"], known_matcher=KNOWN.get("C01"))
    if not ctx.get("replay"):
        ccov, cviol = core_check.run(ctx, "C01", 40)
        cov.update(ccov)
        cov["evaluations"] = cov.get("evaluations", 0) + ccov["core_ops"]
        cov["disagreements_checked"] = cov.get("disagreements_checked", 0) + ccov["core_ops"]
        ctx.setdefault("violations", []).extend(cviol)
    return cov
