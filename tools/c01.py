"""C01 — decided on the serial dependency engine; see deps_check.py (shared body), core_check.py (the proven
plain-target core against the real binaries) and DESIGN §7."""
import deps_check, core_check
from c_deps_common import *

def run(ctx):
    # "after any history of ... earlier partial or failed builds": a share of the histories contains builds whose whole
    # process tree is killed when a chosen script reaches a chosen step (same operation as C10's)
    import random, depsgen, c10
    rng = random.Random(ctx["seed"] * 43 + 1)
    killed = [c10.with_crashes(rng, depsgen.gen_case(rng, features=FEATURES["C01"])) for _ in range(200 if ctx["tier"] == "thorough" else 20)]
    cov = deps_check.run_property(ctx, "C01", FEATURES["C01"], NCASES["C01"], WANT["C01"], known_matcher=c10.kill_window_matcher("C01"), extra_cases=killed)
    cov["histories_with_killed_builds"] = len(killed)
    if not ctx.get("replay"):
        ccov, cviol = core_check.run(ctx, "C01", 40)
        cov.update(ccov)
        cov["evaluations"] = cov.get("evaluations", 0) + ccov["core_ops"]
        cov["disagreements_checked"] = cov.get("disagreements_checked", 0) + ccov["core_ops"]
        ctx.setdefault("violations", []).extend(cviol)
    return cov
