#!/bin/sh
# usage: tools/try_seed.sh <patch.diff> <Cxx> [tier]   — apply a seeded change to /repo, run the check, undo.
set -u
P="$1"; ID="$2"; TIER="${3:-quick}"
git -C /repo apply "$P" || { echo "patch does not apply"; exit 2; }
cd /verif && ./check "$ID" --tier "$TIER" 2>/dev/null | grep -E "^(VIOLATION|KNOWN-FINDING)" ; RC=$?
git -C /repo checkout -- . 
echo "done ($ID $P)"
