#!/bin/bash
# usage: tools/try_seed.sh <patch.diff> <Cxx> [more ids...]   — apply a seeded change to a SCRATCH clone of /repo
# (never to /repo itself: background runs use it), run the quick checks against it, report, reset the clone.
# SEED_SCRATCH=/tmp/xyz- gives a private clone/build pair (/tmp/xyz-repo, /tmp/xyz-build) for concurrent use.
set -u
P="$(readlink -f "$1")"; shift
S="${SEED_SCRATCH:-/tmp/seed}repo"
[ -d "$S/.git" ] || git clone -q /repo "$S"
git -C "$S" fetch -q /repo HEAD && git -C "$S" reset -q --hard FETCH_HEAD && git -C "$S" checkout -q --detach FETCH_HEAD && git -C "$S" clean -fdq
if ! git -C "$S" apply "$P" 2>/dev/null; then
  # the tree has moved on since the change was written: try a three-way merge of the patch
  if ! git -C "$S" apply -3 "$P" >/dev/null 2>&1; then
    git -C "$S" reset -q --hard FETCH_HEAD
    echo "patch does not apply to HEAD"; exit 2
  fi
  git -C "$S" reset -q
fi
cd "$(dirname "$0")/.."
for ID in "$@"; do
  R=$(VERIF_REPO=$S VERIF_BUILD="${SEED_SCRATCH:-/tmp/seed}build" ./check "$ID" --tier "${TIER:-quick}" 2>/dev/null | grep -E "^(VIOLATION|KNOWN-FINDING)" | cut -c1-600)
  echo "[$ID] ${R:-no alarm}"
done
git -C "$S" reset -q --hard FETCH_HEAD; git -C "$S" clean -fdq
