#!/bin/bash
# usage: tools/try_seed.sh <patch.diff> <Cxx> [more ids...]   — apply a seeded change to a SCRATCH clone of /repo
# (never to /repo itself: background runs use it), run the quick checks against it, report, reset the clone.
# SEED_SCRATCH=/tmp/xyz- gives a private clone/build pair (/tmp/xyz-repo, /tmp/xyz-build) for concurrent use.
set -u
P="$(readlink -f "$1")"; shift
S="${SEED_SCRATCH:-/tmp/seed}repo"
[ -d "$S/.git" ] || git clone -q /repo "$S"
git -C "$S" fetch -q /repo HEAD && git -C "$S" checkout -q --detach FETCH_HEAD && git -C "$S" checkout -q -- . && git -C "$S" clean -fdq
git -C "$S" apply "$P" || { echo "patch does not apply to HEAD"; exit 2; }
cd "$(dirname "$0")/.."
for ID in "$@"; do
  R=$(VERIF_REPO=$S VERIF_BUILD="${SEED_SCRATCH:-/tmp/seed}build" ./check "$ID" --tier "${TIER:-quick}" 2>/dev/null | grep -E "^(VIOLATION|KNOWN-FINDING)" | cut -c1-600)
  echo "[$ID] ${R:-no alarm}"
done
git -C "$S" checkout -q -- . ; git -C "$S" clean -fdq
